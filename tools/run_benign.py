#!/usr/bin/env python3
"""Run quick checks against behaviour-preserving refactorings: every check must still exit 0 (no alarm, not inconclusive).

usage: tools/run_benign.py <dir with KEY_n.diff files> ... [--checks=C01,C02] [--par=3]
Each diff is applied to a scratch worktree of /repo HEAD (removed afterwards); the existing suite must still pass."""
import json
import os
import subprocess
import sys
import time
from concurrent.futures import ThreadPoolExecutor

VERIF = os.path.dirname(os.path.dirname(os.path.abspath(__file__)))
REPO = "/repo"
CHECKS = {"serde": ["C01", "C02", "C16", "C12", "C15"], "encoding": ["C04", "C05", "C14", "C06", "C09", "C15"],
          "verifier": ["C09", "C10"], "parser": ["C08", "C20"], "codegen": ["C10"], "reflection": ["C12", "C13"],
          "dbc": ["C05", "C14", "C15"], "canc_py": ["C06", "C19", "C14", "C15"], "canc_tmpl": ["C06", "C19", "C15"],
          "cpp_static": ["C03", "C13", "C15", "C18"], "cpp_dynamic": ["C13", "C18"], "cpp_can": ["C18"]}


def sh(cmd, **kw):
    return subprocess.run(cmd, shell=True, capture_output=True, text=True, **kw)


def process(diff, only, nproc):
    name = os.path.basename(diff)[:-5]
    key = name.rsplit("_", 1)[0]
    wt = f"/tmp/vbenign/{name}"
    sh(f"git -C {REPO} worktree remove --force {wt}")
    r = sh(f"git -C {REPO} worktree add --detach {wt}")
    out = {"name": name, "checks": {}}
    try:
        ra = sh(f"cd {wt} && git apply {diff}")
        if ra.returncode:
            out["apply"] = "FAILED " + ra.stderr[-200:]
            return out
        rt = sh(f"cd {wt} && PYTHONPATH={wt}/src /venv/bin/python -m pytest -q -p no:cacheprovider --timeout=900 "
                f"--continue-on-collection-errors 2>&1 | tail -1", timeout=1800)
        out["suite"] = rt.stdout.strip()[-60:]
        for pid in CHECKS.get(key, []):
            if only and pid not in only:
                continue
            t = time.time()
            e = dict(os.environ, VERIF_REPO=wt, VERIF_NPROC=str(nproc), VERIF_REPLAY_DIR=f"{wt}/.verif_replays",
                     VERIF_EVIDENCE_DIR=f"{wt}/.verif_evidence")
            try:
                p = subprocess.run(["sh", os.path.join(VERIF, "run.sh"), pid, "quick"], capture_output=True, text=True,
                                   env=e, timeout=1500)
                rc, so = p.returncode, p.stdout
            except subprocess.TimeoutExpired:
                rc, so = 124, "timeout"
            lines = [l for l in so.splitlines() if l.startswith(("VIOLATION", "INCONCLUSIVE", "  what"))][:4]
            out["checks"][pid] = {"exit": rc, "seconds": round(time.time() - t), "lines": [l[:300] for l in lines]}
    finally:
        sh(f"git -C {REPO} worktree remove --force {wt}")
    return out


def main():
    args = [a for a in sys.argv[1:] if not a.startswith("--")]
    only, par = None, 3
    for a in sys.argv[1:]:
        if a.startswith("--checks="):
            only = a.split("=")[1].split(",")
        if a.startswith("--par="):
            par = int(a.split("=")[1])
    diffs = []
    for a in args:
        if a.endswith(".diff"):
            diffs.append(os.path.abspath(a))
        else:
            diffs += sorted(os.path.join(os.path.abspath(a), f) for f in os.listdir(a) if f.endswith(".diff"))
    os.makedirs("/tmp/vbenign", exist_ok=True)
    bad = 0
    with ThreadPoolExecutor(par) as ex:
        for out in ex.map(lambda d: process(d, only, max(2, 16 // par)), diffs):
            print(f"== {out['name']}: apply={out.get('apply', 'ok')} suite={out.get('suite')}")
            for pid, c in out["checks"].items():
                tag = "ok" if c["exit"] == 0 else ("ALARM" if c["exit"] == 1 else f"EXIT{c['exit']}")
                bad += c["exit"] != 0
                print(f"   {pid}: {tag} {c['seconds']}s")
                for l in c["lines"]:
                    print("      " + l)
            sys.stdout.flush()
    sh(f"git -C {REPO} worktree prune")
    print(f"{bad} check runs did not exit 0")


if __name__ == "__main__":
    main()
