#!/usr/bin/env python3
"""Replaces the §4b table of DESIGN.md by the output of tools/seeded_table.py."""
import os
import subprocess
import sys

here = os.path.dirname(os.path.abspath(__file__))
root = os.path.dirname(here)
table = subprocess.run([sys.executable, os.path.join(here, "seeded_table.py")], capture_output=True, text=True, check=True).stdout.rstrip("\n").split("\n")
lines = open(os.path.join(root, "DESIGN.md")).read().split("\n")
a = next(i for i, l in enumerate(lines) if l.startswith("| change | what | needs |"))
b = a
while b < len(lines) and lines[b].startswith("|"):
    b += 1
lines[a:b] = table
open(os.path.join(root, "DESIGN.md"), "w").write("\n".join(lines))
print(f"table: {len(table) - 2} rows")
