#!/usr/bin/env python3
"""Prints the markdown table of DESIGN.md §4b from seeded/*/meta.json."""
import glob
import json
import os

FIRST = {  # what happened on the FIRST run against each change, before any strengthening
    "C01_1": "inconclusive (int.from_bytes / bytes not stubbed) -> stubs added",
    "C02_3": "would have been missed (bool(SymFloat) was always True) -> SymFloat truthiness added before the run",
    "C04_2": "missed (state outside bitstart/encoding) -> real two-call history added",
    "C04_3": "missed (no array inside a nested struct in the quick skeletons) -> added",
    "C16_3": "not finished in 20 min (list * symbolic count enumerated) -> allocations count against the work budget, red cases stop early",
    "C20_1": "missed (plan was vacuous: moved struct referenced declarations outside its module) -> per-plan vacuity guard, new plans",
    "C06_1": "missed (no last signal straddling a byte boundary in the family) -> shapes added",
    "C06_3": "missed (no 9..16-bit signed signal beyond frame bit 32) -> every carrier type after a 33/40-bit pad",
    "C14_2": "missed by C14 (no renamed binding in its concrete cases; C09 caught it) -> renamed bindings added",
    "C14_3": "missed by C14 (C signal tables were C06's job only) -> create_can_signals under pysym with symbolic widths",
    "C08_1": "inconclusive (needs two parses in one process; fresh-process replay did not reproduce) -> history-aware replay",
    "C08_3": "missed (no template merging a module into a file that already has an enum) -> nested_modules template changed",
    "C10_2": "inconclusive (recording FS model had no exists/stat) -> symbolic pre-existing directory state",
    "C10_3": "missed (fresh manager per run) -> generate() history scenario",
    "C12_2": "would have been missed (no directly nested arrays) -> field added before the run",
    "C01_r2_2": "inconclusive (violation found through decoy priming, but the primed replay ran in a process that had already used the schema) -> primed replays get their own fresh process",
    "C02_r2_2": "as C01_r2_2",
    "C03_r2_2": "as C01_r2_2 (generator-level cache)",
    "C04_r2_2": "missed (every skeleton enum declared its maximum last) -> enum with the maximum declared first",
    "C06_r2_1": "as C01_r2_2 (class-level cache in the layout encoder)",
    "C06_r2_2": "missed by C06 (signal blocks are outside its family; C04 caught it) -> identity byte-order option on an 8-bit field next to derived-looking names",
    "C08_r2_1": "inconclusive (replay used a fresh Logger, the symbolic run the shared default one) -> replay uses the public default",
    "C09_r2_1": "timed out (a cached verifier accumulates checks, non-revealing cases get slow) -> cheap cases first, red runs stop at 10 violations",
    "C14_r2_1": "missed by C14 (each concrete generation ran in its own process; C10's manager history caught it) -> warm-up generation in the same process",
    "C20_r2_2": "inconclusive (Path.read_text bypassed the in-memory open stub) -> templates are written to a real scratch tree",
    "C13_1": "missed (in every family enum the largest value also had the alphabetically last name) -> enums whose maximum is neither last declared nor last by name",
    "C13_3": "caught (the patch had to be re-based by hand: the fix for signed JSON numbers touched the same line)",
    "C13_r2_2": "missed (no field id above 255 in the family) -> ids 1 / 256 / 65537, whose order changes when narrowed to 8 or 16 bits",
    "C01_r3_b": "missed (the priming only made successful calls) -> aborted encode/decode calls in the history priming",
    "C02_r3_b": "NOT CAUGHT, by decision: needs the parsed FcpV2 tree to be edited in place (fcp.structs[i] = other) - outside the property's domain (schemas as the front end produced them); judging that would flag correct caches",
    "C03_r3_b": "missed for three sessions (rpc envelope structs were outside the C03 family) -> <Payload>Input/Output envelopes with the hand-written 8+8 bit header are family members",
    "C05_r3_a": "missed (own DBC reader masked bit 31 of BO_ ids) -> extended-frame flag read and compared",
    "C05_r3_b": "inconclusive (the replay reused one encoder for all bindings and so reproduced the memo bug on both sides) -> fresh encoder per binding in the replay",
    "C08_r3_a": "missed (the token stand-in answered str() with a Python repr, so an index keyed by token text never matched) -> stand-ins faithful to lark tokens",
    "C08_r3_b": "missed (no two module files with the same base name and equal declaration positions) -> template added",
    "C09_r3_a": "missed (bindings carried only an id) -> bus/device extension fields with symbolic values",
    "C09_r3_b": "missed (names are atoms: no earlier same-named schema) -> a decoy tree with the same atoms is verified first on every path",
    "C10_r3_b": "missed (histories only had accepted generations) -> history 'after a rejected generation'",
    "C12_r3_a": "missed (extension-field numbers in the templates had few digits) -> 2^64-1, 2^53+1, 17-digit floats",
    "C12_r3_b": "missed (reference record read the live field dicts; no layout before reflection) -> declared-fields snapshot, same-object history",
    "C13_r3_a": "missed (all reflection strings ASCII) -> non-ASCII extension field; a loader that leaves its buffer is decided natively",
    "C13_r3_b": "missed (one load per schema object) -> the reflection is loaded twice",
    "C14_r3_a": "missed (no `bitstart` signal option anywhere) -> option added to C04's skeleton and C14's concrete cases",
    "C14_r3_b": "caught only after the warm-up generation got the decoy schema (same enum name, narrower)",
    "C15_r3_b": "caught by C13 (field ids >= 256), not by C15: only the run-time C++ schema is affected",
    "C18_r3_a": "missed (all binding names were 1 character) -> names longer than the bus tag; patch re-based after fix 8b8cbc4",
    "C18_r3_b": "missed (one Decode per Can object) -> a foreign frame with the same id is decoded first on the same object",
    "C20_r3_a": "missed (no module file next to a same-named directory) -> tree plans",
    "C12_r4_c": "would have been missed (the reference was derived from the parsed tree, so what the parser drops was invisible; no template interleaved fields and signal blocks) -> hand-written source expectation per template, interleaved binding added before the run",
    "C20_r4_c": "would have been missed (no module file began with a comment) -> comment/blank-line headers added before the run",
    "C04_r4_c": "would have been missed (the two-call history laid out another binding second, not the same one) -> same binding laid out again by the same and by a new encoder, added before the run",
    "C18_r4_c": "would have been missed (no bus names differing only in case) -> family entry added before the run",
    "C09_r4_c": "would have been missed (binding skeletons had no enum) -> bind_enum skeleton added before the run",
    "C13_r4_c": "would have been missed (no two containers of containers agreeing on their outer levels) -> schema added before the run",
    "C16_r5_d": "inconclusive (the byte-array proxy only knew the ascii codec) -> latin-1 / utf-8 (7-bit) codecs",
    "C02_r5_d": "missed (no struct with ids out of declaration order was reached through an array) -> reversed-id struct inside every container kind",
    "C03_r5_d": "inconclusive (basic_string::reserve had no model in the C03 machine), then missed (no sub-byte dynamic array longer than the message has bytes) -> libstdc++ natives everywhere, a 14-element instance for such arrays",
    "C13_r5_d": "missed (no string started in the middle of a byte) -> schema added",
    "C12_r5_d": "caught by C20 (same-named module files), not by C12: the defect is in module import, C12's templates are single files",
    "C09_r5_d": "caught; the first witness had small enumerator values whose concrete replay did not reproduce (CPython shares small ints) -> a second witness with every integer outside -5..256 is tried before giving up",
    "C12_r6_e": "missed (no history in which repository code extends the tree between two reflection() calls) -> reflection(), generate_rpc, reflection() on one object",
    "C05_2": "would have been missed (no plain signal named like an earlier binding's multiplexer) -> schema added before the run",
}

rows = []
for d in sorted(glob.glob(os.path.join(os.path.dirname(os.path.dirname(os.path.abspath(__file__))), "seeded", "*"))):
    m = json.load(open(os.path.join(d, "meta.json")))
    name = os.path.basename(d)
    chk = m.get("verif", {}).get("checks", {})
    own = name.split("_")[0]
    st = chk.get(own, {}).get("status", "?")
    others = ", ".join(f"{k}: {v['status'].lower()}" for k, v in chk.items() if k != own)
    summ = " ".join((m.get("summary") or "").split())[:150]
    needs = " ".join((m.get("needs") or "").split())[:140]
    rows.append(f"| {name} | {summ} | {needs} | {own}: {st.lower()}" + (f" ({others})" if others else "") +
                f" | {FIRST.get(name, 'caught')} |")
print("| change | what | needs | now | first run |")
print("|---|---|---|---|---|")
print("\n".join(rows))
