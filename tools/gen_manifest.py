#!/usr/bin/env python3
"""Regenerates /verif/MANIFEST.json from the table below and validates it against the schema."""
import json
import os
import sys

HERE = os.path.dirname(os.path.dirname(os.path.abspath(__file__)))

PYSYM = "pysym (own proxy-based symbolic executor over z3 bit-vectors, verif/pysym.py)"
LLSYM = "llsym (own interpreter of clang-14 LLVM IR with symbolic data over z3, verif/llsym.py)"

CHECKS = {
    "C01": dict(
        engine="pysym",
        category="model_checking",
        text="Bounded symbolic execution of the real fcp.serde.encode/decode on proxy values: for every schema of an "
             "enumerated shape family, z3 proves decode(encode(v)) == v for ALL in-range values of that shape (every "
             "path of the real code, floats bit-for-bit) or returns a value that is replayed against the unstubbed code. "
             "Values are never sampled; shapes and container lengths are the stated bound.",
        design_ref="DESIGN.md §4 C01",
        note="Trusted: z3, the pysym proxies (interval-checked BV model of Python ints; C-boundary stubs for int/float/"
             "bytearray/ord/struct/range/sorted listed in evidence), the real front end producing the schema objects. "
             "Outside the claim: shapes not in verif.shapes.codec_family, lengths beyond the listed patterns, f32 "
             "signalling-NaN inputs (no Python float packs to one).",
        technique="symbolic execution of the real Python (z3 bit-vector proxies) + SMT validity per path, replayed counterexamples",
    ),
    "C02": dict(
        engine="pysym",
        category="model_checking",
        text="Differential symbolic harness: real serde.encode output vs. an independently written canonical wire "
             "format (verif/refspec.py, validated each run on the repository's cross-language vectors), byte-wise "
             "equality proved by z3 for all values of each shape; and real serde.decode applied to the canonical bytes "
             "of a symbolic value returns that value. Catches errors made symmetrically in encode and decode.",
        design_ref="DESIGN.md §4 C02",
        note="Trusted: as C01 plus refspec (80 lines from the property text; must reproduce tests/standardized/"
             "fcp_tests.json and the tests/test_serde.py byte vectors or the run is inconclusive).",
        technique="symbolic execution of the real Python vs. reference wire-format model, SMT equivalence per path",
    ),
    "C16": dict(
        engine="pysym",
        category="model_checking",
        text="Real serde.decode executed symbolically on (a) every strict byte prefix of the canonical encoding of a "
             "symbolic value, (b) encodings whose last length prefix is a symbolic count up to 2^32-1 announcing more "
             "than the buffer holds, (c) arbitrary buffers of n symbolic bytes with a forking range(): every feasible "
             "path must raise / return only values that fit in the input, within an iteration budget proportional to "
             "the input length.",
        design_ref="DESIGN.md §4 C16",
        note="Trusted: as C01. Any Exception counts as a decoding error. (b) only corrupts the last variable-size node in "
             "wire order (for earlier ones later prefixes are re-read from other bytes, so the announced total is not "
             "determined by that count). Buffer sizes and the work budget are stated in evidence.",
        technique="symbolic execution of the real decoder on symbolic buffers/length prefixes (forking range), SMT path feasibility",
    ),
}

CHECKS["C04"] = dict(
    engine="pysym",
    category="model_checking",
    text="The real PackedEncoder.generate runs under pysym with symbolic field ids (all orders through a forking sort), "
         "symbolic integer widths 1..64, symbolic enum maxima below 2^32 and an arbitrary symbolic encoder pre-state; on "
         "every path z3 proves that the leaves are the reference leaves in ascending-id order, start at bit 0 and tile "
         "without gaps with width = wire width, and that signal options sit on equally named leaves only. One inductive "
         "step from an arbitrary encoder state covers every generate() history.",
    design_ref="DESIGN.md §4 C04",
    note="Trusted: z3, pysym proxies, the libm log2 contract (checked concretely on each run for k<=47), layoutref.py "
         "(reference flattening written from the property). Bound: enumerated skeleton shapes (<= 8 leaves, nesting <= 3); "
         "arrays of structs only with unrolling.",
    technique="symbolic execution of the real layout code with symbolic ids/widths/enum maxima/pre-state + SMT validity",
)
CHECKS["C09"] = dict(
    engine="pysym",
    category="model_checking",
    text="The real Verifier (general rules, then with fcp_dbc / fcp_can_c register_checks) runs under pysym on trees "
         "whose every name is an opaque symbolic atom and whose enumerator values, frame ids and widths are symbolic; "
         "for every feasible path z3 decides verdict <=> specification (both directions in one validity query), for "
         "several declaration orders. Over-strict and over-lax rules show up as models.",
    design_ref="DESIGN.md §4 C09",
    note="Trusted: z3, pysym atoms (only equality observable), the six-clause specification written in z3 from the "
         "property text. Bound: skeleton trees up to 3 structs x 3 fields, 2 enums x 3 enumerators, 5 bindings, 2 "
         "services, 3 devices. An exception escaping verify counts as a violation for well-formed trees.",
    technique="symbolic execution of the real verifier on trees with symbolic names/ids/values + SMT equivalence with the spec",
)

CHECKS["C08"] = dict(
    engine="pysym",
    category="model_checking",
    text="The real FcpV2Transformer (through the public get_fcp, incl. mod_expr, the nested transformer and merge) runs "
         "under pysym on Lark trees produced by the real parser from concrete templates whose identifier leaves are "
         "replaced by opaque name atoms. For every equality pattern among declarations and references z3 decides: "
         "accepted <=> every reference names a declaration visible before its use (same file or module imported "
         "earlier); accepted => kind tag and get_type agree with the declaration; rejected => the error chain names the "
         "type and the enclosing struct.",
    design_ref="DESIGN.md §4 C08",
    note="Parser boundary stubbed: that the Earley parser maps text to these trees is outside the claim (C07's domain), "
         "as is the real file system (in-memory open). Declared names assumed pairwise distinct. Bound: 6 templates "
         "(containers to depth 3, self/forward references, 1-3 files, dotted and nested modules).",
    technique="symbolic execution of the real Lark Transformer on trees with symbolic names (opaque atoms) + SMT",
)
CHECKS["C15"] = dict(
    engine="pysym",
    category="model_checking",
    text="For struct shapes whose ids are not in declaration order and every permutation of their declarations: real "
         "serde.encode of the schema and of its permuted twin give equal bytes for ALL values (one validity query per "
         "path) and both decode them alike; the packed layout with symbolic integer widths is equal; the generated DBC "
         "text is equal; generated C/C++ are compared through llsym where built.",
    design_ref="DESIGN.md §4 C15",
    note="Invariance only; which order is right is pinned by C02/C04. DBC text equality is a concrete comparison of the "
         "real generator's output (a deterministic artefact with no free input). Bound: listed shapes x <= 24 "
         "permutations.",
    technique="symbolic execution of the real Python back ends on a schema and its declaration-permuted twin + SMT equivalence",
)
CHECKS["C20"] = dict(
    engine="pysym",
    category="model_checking",
    text="A template schema with every declaration kind is split by enumerated plans (module trees to depth 3, dotted "
         "paths, nested imports); the split and the single-file schema both run through the real get_fcp under pysym "
         "with symbolic names, and z3 proves on every path that verdicts coincide and all five declaration categories "
         "are equal as multisets. FcpV2.merge is checked in isolation; injected errors (unresolved reference in a "
         "module, syntax errors at enumerated positions, missing files) must come back as Err naming the module/file.",
    design_ref="DESIGN.md §4 C20",
    note="Parser boundary and file system stubbed as in C08. Precondition encoded as assumption: references inside a "
         "module do not name declarations that exist only outside it. Module names are concrete identifiers.",
    technique="symbolic execution of the real import/merge code on split vs. single-file trees with symbolic names + SMT",
)

CHECKS["C10"] = dict(
    engine="pysym",
    category="model_checking",
    text="The real GeneratorManager.generate -> Verifier.verify/run_checks -> @catch -> CodeGenerator.gen -> "
         "handle_result runs under pysym with a stub plug-in (found by the real pkgutil discovery) whose checks, "
         "registered in every category next to the real general checks, return symbolic booleans, and whose generate() "
         "returns records with symbolic type/path/contents; file-system calls of fcp.codegen go to a recording model. "
         "On every path: some verdict false => Err, no mutation, generator never run; all true => Ok and exactly the "
         "file records are written with their contents.",
    design_ref="DESIGN.md §4 C10",
    note="Two entry points: GeneratorManager.generate and the body of the `fcp generate` command "
         "(fcp.__main__.generate_cmd.callback: real get_fcp on a real file, error = something printed, the real output "
         "directory observed). Histories: after an accepted generation, after another manager, after a rejected generation. "
         "Outside (stated): click's argument parsing and side effects inside a real plug-in's own generate(); the four real "
         "plug-ins are additionally run concretely through GeneratorManager.generate and through `python -m fcp generate` "
         "with accepted/rejected schemas into a temp directory (conformance of the stub, not the deciding step). Verdict "
         "bits are unconstrained, so the solver's contribution is exhaustive path forking.",
    technique="symbolic execution of the real generate/verify control flow with symbolic check verdicts and records + recording FS model",
)
CHECKS["C12"] = dict(
    engine="pysym",
    category="model_checking",
    text="Trees parsed by the real front end from templates (all node kinds: units, ranges, nested type chains, "
         "bindings with fields and signal blocks, services) get every leaf replaced by a symbolic value; the real "
         "reflection() record is compared with a reference description of the tree and pushed through the real "
         "serde.encode/decode with the real reflection schema: z3 proves record == reference and decode(encode(record)) "
         "== record for all leaf values.",
    design_ref="DESIGN.md §4 C12",
    note="Trusted: as C01 plus reference_record (written from the property and reflection.fcp's field names). Bound: 4 "
         "templates x string-length patterns; extension-field values stay concrete (they are rendered by str()). One "
         "concrete history obligation per template with services: reflection(), fcp_cpp.rpc.generate_rpc, reflection() on one "
         "object must list what the tree holds.",
    technique="symbolic execution of the real reflection + codec on trees with symbolic leaves + SMT validity",
)

CHECKS["C05"] = dict(
    engine="z3tv",
    category="translation_validation",
    text="Translation validation of the real artefact: for every schema of a CAN family the real fcp_dbc generator's "
         "text is read back by an own BO_/SG_/SIG_VALTYPE_/SG_MUL_VAL_ reader and, per signal, z3 decides over an "
         "arbitrary 64-bit frame that the DBC semantics (Intel/Motorola extraction) equals the layout semantics of the "
         "corresponding leaf; id, name, DLC, sign, float marking, unit, mux table and bus partition are compared "
         "concretely; a witness frame is replayed through cantools. In addition _make_signals runs under pysym on "
         "symbolic layouts (symbolic lengths, signedness, units, mux_count) with recording stand-ins for cantools.",
    design_ref="DESIGN.md §4 C05",
    note="Programs = schemas of verif.checks.dbc_checks.can_family; the reference layout is the real PackedEncoder "
         "output (C04's obligation). cantools' own text emission is exercised concretely only; big-endian signals that "
         "are not byte aligned are outside (the layout does not define them).",
    technique="SMT translation validation of the generated DBC vs. the packed layout over all 2^64 frames + symbolic execution of _make_signals",
)
CHECKS["C14"] = dict(
    engine="pysym",
    category="model_checking",
    text="write_dbc runs under pysym on skeleton bindings whose integer widths are symbolic (1..64 each, up to 9 leaves, "
         "excess in flat fields, nested structs, arrays, arrays of structs): z3 proves error <=> total > 64 bits, no "
         "message recorded on error, and otherwise every recorded signal lies inside 8*dlc bits and signals are "
         "pairwise disjoint; _make_signals likewise on symbolic tilings up to 200 bits. The real dbc and can_c "
         "generation commands are run concretely for variable-size fields at every position and sizes 57..200 bits and "
         "must fail without touching the output directory.",
    design_ref="DESIGN.md §4 C14",
    note="The C generator's size gate with symbolic widths is decided in C09 (size skeletons); its writer renders widths "
         "into text (C boundary), so for C the symbolic part stops at the gate and the rest is concrete conformance. An "
         "exception escaping the command counts as failing with an error.",
    technique="symbolic execution of the real DBC writer with symbolic field widths + SMT; concrete runs of the real generation commands",
)

CHECKS["C06"] = dict(
    engine="llsym",
    category="model_checking",
    text="For every schema of a family of flat CAN structs the real generator's C is compiled (precondition) and "
         "lowered by clang-14 to IR, which llsym interprets with symbolic data: can_encode_msg_<m> on all in-range "
         "field values must return (binding id, ceil(bits/8), layout packing) and can_decode_msg_<m> on all 2^80 "
         "frames must return the layout extraction of every field (z3 validity per path); counterexamples are "
         "recompiled natively with clang and gcc and run before they are reported.",
    design_ref="DESIGN.md §4 C06",
    note="Trusted: clang-14's lowering, llsym (own IR interpreter; every reported counterexample is confirmed natively), "
         "z3 FP theory for the runtime's *1.0 + 0.0. Outside: muxed/big-endian C messages, NaN payloads and the sign of "
         "zero, scale/offset other than the generated 1.0/0.0.",
    technique="symbolic execution of clang's LLVM IR of the generated C (own interpreter) + SMT validity vs. layout packing",
)
CHECKS["C19"] = dict(
    engine="llsym",
    category="model_checking",
    text="llsym interprets the IR of the generated can_send_<dev>_msgs_scheduled with (1) an arbitrary symbolic static "
         "state, symbolic 32-bit time and arbitrary device bytes - one inductive step: frames sent, their order and "
         "bytes (vs. can_encode_msg of the same device) and the post-state equal a 10-line reference automaton, which "
         "covers call histories of any length; (2) k-step bounded model checking from the C initial state with "
         "arbitrary timestamps, wrap-around included.",
    design_ref="DESIGN.md §4 C19",
    note="Bound: devices of 1..4 messages with periods from {-1, absent, 1, 2, 15, 20, 1000, 2^31-1}; k = 3 (quick) / 6 "
         "(thorough). Trusted as C06. The reference state is the C state, so no invariant is needed for the inductive step.",
    technique="symbolic execution of clang's LLVM IR of the generated scheduler: 1-step induction from arbitrary state + k-step BMC, SMT vs. reference automaton",
)

CHECKS["C03"] = dict(
    engine="llsym",
    category="model_checking",
    text="For every schema of a family the real fcp_cpp generator's headers are compiled as C++17 (clang++ -O1 to IR, "
         "g++ -fsyntax-only) together with a generated harness TU that only builds typed values and calls the generated "
         "Encode/Decode; llsym interprets that IR (through libstdc++'s vector/optional/string/array code) with symbolic "
         "field values: Encode bytes == canonical bytes for all values, Decode of an arbitrary buffer of the canonical "
         "length == reference decoding for fixed-size shapes (canonical images of all values otherwise); "
         "_to_highest_power_of_two runs under pysym with symbolic N in 1..64 (carrier in {8,16,32,64}, >= N). The JSON entry "
         "points StaticSchema::EncodeJson/DecodeJson are interpreted with real nlohmann::json values built from a symbolic area: "
         "bytes == canonical bytes, decoded JSON == the value.",
    design_ref="DESIGN.md §4 C03",
    note="Outside the claim: rpc broker/client/server headers (compile-only as part of generation; the rpc envelope structs are inside), Endianess::Big, NaN payloads, Optional of "
         "a container through JSON. Natives: operator new/delete, out-of-line basic_string members, red-black tree insertion "
         "(no rebalancing) / increment, memcmp/strlen, throw helpers. Counterexamples are recompiled natively with clang++ and g++ and run.",
    technique="symbolic execution of clang's LLVM IR of the generated C++ typed codec (own interpreter) + SMT validity vs. canonical bytes",
)

CHECKS["C18"] = dict(
    engine="llsym",
    category="model_checking",
    text="For every schema of a family (1..4 CAN bindings named after their struct, ids 0..2047, bus names of 1..4 "
         "characters incl. names that prefix one another, same id on several buses, same bus with several ids; bus-less and "
         "non-CAN bindings present) the real fcp_cpp generator's can_static_schema.h/can.h/fcp.h are compiled with a harness TU "
         "(clang++ -O1 to IR) and llsym interprets fcp::can::Can{make_shared<CanStaticSchema>}::Encode/Decode with everything they reach "
         "(GetMsgName/GetSid/GetBus tables, StaticSchema::EncodeJson/DecodeJson name dispatch, <S>::Encode/Decode, Buffer, "
         "libstdc++ string/optional/vector code). Obligations: Encode(name, v) for every in-range v gives (bus tag, id, dlc, data) == "
         "(binding's bus NUL-padded, binding's id, canonical size, canonical bytes) with no byte read from uninitialised "
         "memory; Decode of that frame gives the binding's name and v; Decode of a fully symbolic frame (sid, 4 bus bytes, "
         "dlc, 8 data bytes) that matches no binding is reported as unknown. Second part, nothing modelled: after loading the "
         "tool's reflection binary, Can{CanStaticSchema} and Can{CanDynamicSchema} run on the same real-JSON inputs and must give the "
         "same frames / names / values / unknown verdicts (symbolic values, symbolic (sid, bus)).",
    design_ref="DESIGN.md §4 C18",
    note="Environment models (part of the claim): <S>::FromJson(json) returns the typed value built from a symbolic "
         "argument area, <S>::DecodeJson() dumps the typed value and returns json null - JSON itself is never executed. "
         "Outside the claim: bindings without a bus; payloads above 8 bytes; frame.data beyond dlc. "
         "The open finding KF-DYN-ENCODE-BYTE-ALIGNED (C13) is excluded by its exact effect in the second part. "
         "Counterexamples are replayed through fcp::can::Can with real nlohmann::json, compiled with clang++ and g++. "
         "One witness per schema of the second part also runs natively at -O0 under AddressSanitizer/UBSan (concrete run, "
         "not the deciding step for values: it exists for undefined behaviour that the optimiser removes from the -O1 IR). "
         "Decode is checked after a foreign frame with the same id was decoded on the same Can object.",
    technique="symbolic execution of clang's LLVM IR of the generated C++ CAN wrappers (own interpreter; part 1 models the two JSON conversions, part 2 models nothing) + SMT validity/equivalence",
)

CHECKS["C13"] = dict(
    engine="llsym",
    category="model_checking",
    text="For every schema of a family the real generator's dynamic.h/reflection.h/fcp.h are compiled with a harness TU (clang++ -O1 to "
         "IR); the binary reflection is produced by the real FcpV2.reflection() + serde.encode. llsym interprets "
         "DynamicSchema::LoadBinarySchema on that binary (concrete), then, with symbolic field values, StaticSchema::EncodeJson vs "
         "DynamicSchema::EncodeJson on the same JSON value and StaticSchema::DecodeJson vs DynamicSchema::DecodeJson on the canonical "
         "bytes of the value - nlohmann::json, std::map, std::string and the codecs themselves are all interpreted, nothing of them "
         "is modelled. Obligation: both sides give the same bytes / the same value (or both fail) on every path for every "
         "in-range value; enumerators are spelled as names towards the dynamic side and compared by number.",
    design_ref="DESIGN.md §4 C13",
    note="Native models only for out-of-line libstdc++/libc functions (verif/cxxnatives.py): red-black tree insertion without "
         "rebalancing (same in-order sequence) and exact increment/decrement, basic_string members, strtol, log2, "
         "std::to_string. Outside the claim: Optional of a container/str, undeclared enumerator numbers, NaN payloads, "
         "non-canonical byte strings, file I/O of LoadBinarySchemaFromFile. One open known finding "
         "(KF-DYN-ENCODE-BYTE-ALIGNED: the run-time encoder pads every field to a byte) is excluded by its exact effect - the "
         "dynamic output equals the per-field byte-aligned encoding - so any other difference is still reported. "
         "Counterexamples are replayed with the same TU compiled natively (clang++ and g++).",
    technique="symbolic execution of clang's LLVM IR of the generated run-time and static C++ codecs incl. nlohmann::json (own interpreter) + SMT equivalence",
)

NOT_APPLICABLE = {
    "C07": "Subject is the Lark Earley parser with a dynamic regex lexer over all texts: it cannot be executed "
           "symbolically by CrossHair or by the proxy engine within reach (DESIGN.md §6); grammar-based generation would "
           "decide it but is a different technique.",
    "C11": "Same subject as C07 (every string through Lark) plus exception plumbing; the failing inputs are classes of "
           "texts, not values a solver ranges over (DESIGN.md §6).",
    "C17": "Quantifies over interpreter state (PYTHONHASHSEED, process history), not over data the code computes on; "
           "there is no symbolic input to hand to a solver (DESIGN.md §6).",
}

PENDING = "check not built yet in this round; planned with the engine named in DESIGN.md §4"


def main():
    props = [json.loads(l)["id"] for l in open(os.path.join(HERE, "properties.jsonl"))]
    checks = []
    for pid in props:
        if pid not in CHECKS:
            continue
        c = CHECKS[pid]
        checks.append({
            "property_id": pid,
            "quick_cmd": f"sh run.sh {pid} quick",
            "thorough_cmd": f"sh run.sh {pid} thorough",
            "evidence_file": f"evidence/{pid}.json",
            "replay_cmd_template": "PYTHONPATH=/verif /verif/.venv/bin/python -m verif.replay {path}",
            "engine": c["engine"],
            "level_claimed": {"category": c["category"], "text": c["text"], "design_ref": c["design_ref"]},
            "level_note": c["note"],
            "technique": c["technique"],
        })
    na = []
    for pid in props:
        if pid in CHECKS:
            continue
        na.append({"property_id": pid, "reason": NOT_APPLICABLE.get(pid, PENDING)})
    man = {
        "version": 1,
        "setup_cmd": "sh setup.sh",
        "hooks": {
            "guard": "FCP_CORE_VERIF",
            "enable": "no source hooks: every stub is a run-time rebinding inside the checker's own process and the "
                      "generated code is analysed as emitted",
            "baseline_off_cmd": "cd /repo && /venv/bin/python -m pytest -ra -q -p no:cacheprovider --timeout=900 "
                                "--continue-on-collection-errors",
            "source_commits": [],
            "add_only": True,
        },
        "engines": [
            {"name": "pysym", "path": "verif/pysym.py", "kind_free_text": PYSYM,
             "serves_properties": [p for p, c in CHECKS.items() if c["engine"] == "pysym"]},
            {"name": "llsym", "path": "verif/llsym.py", "kind_free_text": LLSYM,
             "serves_properties": [p for p, c in CHECKS.items() if c["engine"] == "llsym"]},
            {"name": "z3tv", "path": "verif/checks", "kind_free_text": "direct z3 translation validation",
             "serves_properties": [p for p, c in CHECKS.items() if c["engine"] == "z3tv"]},
        ],
        "checks": checks,
        "notes": "Exit codes: 0 held on everything explored, 1 VIOLATION (only after a concrete replay reproduced it), "
                 "2 inconclusive / harness error (never turned into 0). Known findings: known_findings.json.",
        "not_applicable": na,
    }
    man["engines"] = [e for e in man["engines"] if e["serves_properties"]]
    out = os.path.join(HERE, "MANIFEST.json")
    json.dump(man, open(out, "w"), indent=1)
    try:
        import jsonschema

        jsonschema.validate(man, json.load(open("/root/.vp/MANIFEST.schema.json")))
        print("MANIFEST.json valid;", len(checks), "checks,", len(na), "not claimed")
    except ImportError:
        print("MANIFEST.json written (jsonschema not available to validate)")


if __name__ == "__main__":
    main()
