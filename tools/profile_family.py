#!/usr/bin/env python3
"""Times every case of a check's family (per-case wall), prints the slowest: tools/profile_family.py C01 thorough"""
import sys
import time

sys.path.insert(0, "/verif")
from verif.common import add_repo_paths, pmap  # noqa: E402

add_repo_paths()
from verif.checks import serde_checks as S  # noqa: E402
from verif.shapes import codec_family  # noqa: E402


def one(args):
    fn, s, tier = args
    t = time.time()
    r = getattr(S, fn)((s, tier))
    return (round(time.time() - t, 1), s.describe()[:140], r["paths"], len(r["inconclusive"]))


def main():
    prop, tier = sys.argv[1], sys.argv[2]
    fn = {"C01": "c01_case", "C02": "c02_case", "C16": "c16_case"}[prop]
    fam = S.c16_family(tier, 0) if prop == "C16" else codec_family(tier, 0)
    t0 = time.time()
    rs = []
    for x in pmap(one, [(fn, s, tier) for s in fam]):
        rs.append(x)
        if x[0] > 20:
            print("SLOW", x, flush=True)
    rs.sort(reverse=True)
    print("cases", len(rs), "cpu", round(sum(x[0] for x in rs)), "wall", round(time.time() - t0))
    for x in rs[:12]:
        print(x)


if __name__ == "__main__":
    main()
