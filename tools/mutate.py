#!/usr/bin/env python3
"""Self-test of the checks: apply small semantic edits to /repo (one at a time), run the named quick checks,
require a VIOLATION (exit 1), and restore the file.  usage: tools/mutate.py [name-filter] [--checks C01,C02]

Never leaves /repo modified (git checkout of the touched file in a finally block)."""
import json
import os
import subprocess
import sys
import time

REPO = "/repo"
VERIF = os.path.dirname(os.path.dirname(os.path.abspath(__file__)))

S = "src/fcp/serde.py"
E = "src/fcp/encoding.py"
V = "src/fcp/verifier.py"
CS = "plugins/fcp_cpp/fcp_cpp/can_static_schema.h"
DY = "plugins/fcp_cpp/fcp_cpp/dynamic.h.j2"
CD = "plugins/fcp_cpp/fcp_cpp/can_dynamic_schema.h"

MUTATIONS = [
    # name, file, old, new, checks expected to catch it
    ("serde-sign-ge", S, "if word > max / 2:", "if word > max / 2 + 1:", ["C01", "C02"]),
    ("serde-bitaddr-not-advanced", S, "        self.bitaddr += bits\n        return word", "        return word", ["C01", "C02"]),
    ("serde-msb-first-both", S, "intra_byte_bit_addr = bitaddr & 0x7", "intra_byte_bit_addr = 7 - (bitaddr & 0x7)", ["C02"]),
    ("serde-u16-length-prefix", S, 'UnsignedType("u32")', 'UnsignedType("u16")', ["C02"]),
    ("serde-1bit-optional-flag", S, 'UnsignedType("u8"), 1 if is_some else 0)', 'UnsignedType("u1"), 1 if is_some else 0)', ["C01", "C02"]),
    ("serde-optflag-both-1bit", S, 'UnsignedType("u8")', 'UnsignedType("u7")', ["C02"]),
    ("serde-readword-range", S, "        for i in range(bits):\n            word |=", "        for i in range(bits - (bits == 64)):\n            word |=", ["C01", "C02"]),
    ("serde-decl-order", S, "for field in sorted(struct.fields, key=lambda field: field.field_id):", "for field in struct.fields:", ["C02", "C15"]),
    # (weakening get_bit's check to "<" is equivalent for the property: buffer[byte_addr] then raises IndexError)
    ("serde-clamp-overrun", S, '            raise ValueError("buffer overrrun")', "            return 0", ["C16"]),
    ("serde-str-clamp", S, "        return [self.read_word(8) for _ in range(bytes)]", "        return [self.read_word(8) for _ in range(min(bytes, len(self.buffer) - (self.bitaddr >> 3)))]", ["C16"]),
    ("serde-enum-width", S, "    length = fcp.get_enum(type.name).unwrap().get_packed_size()\n    buffer.push_word(data, length)", "    length = fcp.get_enum(type.name).unwrap().get_packed_size() + 1\n    buffer.push_word(data, length)", ["C01", "C02"]),
    ("layout-unsorted", E, "for field in sorted(struct.fields, key=lambda field: field.field_id):", "for field in struct.fields:", ["C04"]),
    ("layout-reverse", E, "sorted(struct.fields, key=lambda field: field.field_id)", "sorted(struct.fields, key=lambda field: field.field_id, reverse=len(struct.fields) > 3)", ["C04"]),
    ("layout-bitstart-not-reset", E, "        self.encoding = []\n        self.bitstart = 0\n", "        self.encoding = []\n", ["C04"]),
    ("layout-encoding-not-reset", E, "        self.encoding = []\n        self.bitstart = 0\n", "        self.bitstart = 0\n", ["C04"]),
    ("layout-enum-width-plus1", E, "return int(fcp.get_enum(type.name).unwrap().get_packed_size())", "return int(fcp.get_enum(type.name).unwrap().get_packed_size()) + 1", ["C04"]),
    ("enum-packed-size-ceil", "src/fcp/specs/enum.py", "return math.floor(math.log2(m) + 1)", "return math.ceil(math.log2(m)) if m > 2 else 2", ["C04", "C01"]),
    ("layout-unroll-short", E, "        for i in range(type.size):\n            derived_field", "        for i in range(type.size - (type.size > 2)):\n            derived_field", ["C04"]),
    ("layout-array-width", E, "return int(type.size * self._get_type_length(fcp, type.underlying_type))", "return int(self._get_type_length(fcp, type.underlying_type)) * max(type.size, 2)", ["C04"]),
    ("layout-options-leak", E, "extension.get_signal(field.name)", "(extension.signals and Some(extension.signals[0]) or extension.get_signal(field.name))", ["C04"]),
    ("layout-nested-prefix-lost", E, 'prefix=prefix + field.name + "::",', 'prefix=field.name + "::",', ["C04"]),
    ("verifier-typenames-structs-only", V, "type_names = [type.name for type in fcp.get_types()]", "type_names = [type.name for type in (fcp.structs if type in fcp.structs else fcp.enums)]", ["C09"]),
    ("verifier-skips-last-categories", V, "        for category in self.categories:\n            self.run_checks(category, fcp).attempt()", "        for category in self.categories[:-2]:\n            self.run_checks(category, fcp).attempt()", ["C09"]),
    ("verifier-device-first-service-only", V, "                    return error(\n                        f'Service", "                    break\n                    return error(\n                        f'Service", ["C09"]),
    ("verifier-enum-values-skip-negative", V, "enumeration_names = [enumeration.value for enumeration in enum.enumeration]", "enumeration_names = [abs(enumeration.value) for enumeration in enum.enumeration]", ["C09"]),
    ("verifier-impl-dup-ignores-protocol-default", V, "if impls.count((left.name, left.protocol)) > 1:", 'if left.protocol != "default" and impls.count((left.name, left.protocol)) > 1:', ["C09"]),
    ("dbc-ids-per-bus", "plugins/fcp_dbc/fcp_dbc/generator.py", 'impl.fields.get("id") for impl in fcp.impls if impl.protocol == "can"', 'impl.fields.get("id") for impl in fcp.impls if impl.protocol == "can" and impl.name != impl.type', ["C09"]),
    ("canc-size-72", "plugins/fcp_can_c/fcp_can_c/generator.py", "if size > 64:", "if size > 72:", ["C09"]),
    ("canc-size-ge", "plugins/fcp_can_c/fcp_can_c/generator.py", "if size > 64:", "if size >= 64:", ["C09"]),
    ("canc-unknown-struct-ok", "plugins/fcp_can_c/fcp_can_c/generator.py", "            struct = fcp.get_struct(extension.type)\n            if struct.is_nothing():\n                return error(\n                    f\"No matching type for extension", "            struct = fcp.get_struct(extension.type)\n            if struct.is_nothing() and extension.protocol == \"can\":\n                return error(\n                    f\"No matching type for extension", ["C09"]),
    ("parser-error-drops-struct-name", "src/fcp/parser.py", 'f"Failed to parse field in struct {name}"', '"Failed to parse field in struct"', ["C08"]),
    ("parser-optional-swallows-error", "src/fcp/parser.py", '            return Err(typename.err().results_in("Error parsing optional type"))', '            return Ok(OptionalType(StructType("unknown")))', ["C08"]),
    ("parser-error-drops-type-name", "src/fcp/parser.py", """f"Type '{typename}' cannot be found.\"""", """"Type cannot be found.\"""", ["C08"]),
    ("parser-struct-visible-to-own-fields", "src/fcp/parser.py", "        if self.fcp.get_struct(typename).is_some():\n            return Ok(StructType(typename))", "        if self.fcp.get_struct(typename).is_some() or len(self.fcp.structs) == 0:\n            return Ok(StructType(typename))", ["C08"]),
    ("merge-drops-devices", "src/fcp/specs/v2.py", "        self.devices += fcp.devices\n", "", ["C20"]),
    ("merge-dup-impls", "src/fcp/specs/v2.py", "        self.impls += fcp.impls\n", "        self.impls += fcp.impls if fcp.enums else fcp.impls + fcp.impls[:1]\n", ["C20"]),
    ("mod-dots-not-slashes", "src/fcp/parser.py", '(".".join(tree.children).replace(".", "/") + ".fcp")', '(".".join(tree.children).replace(".", "/", 1) + ".fcp")', ["C20", "C08"]),
    ("mod-relative-to-cwd", "src/fcp/parser.py", 'filename = self.path / (".".join(tree.children)', 'filename = (self.path if len(tree.children) == 1 else self.path.parent) / (".".join(tree.children)', ["C20", "C08"]),
    ("mod-missing-file-unnamed", "src/fcp/parser.py", 'return error(f"File not found: {pathlib.Path(e.filename).name}")', 'return error("File not found")', ["C20"]),
    ("mod-syntax-error-unnamed", "src/fcp/parser.py", "MetaData(e.line, e.line, e.column, e.column, 0, 0, str(filename))\n                ),\n            )\n\n        fcp = FcpV2Transformer", "MetaData(e.line, e.line, e.column, e.column, 0, 0, str(self.filename))\n                ),\n            )\n\n        fcp = FcpV2Transformer", ["C20"]),
    ("codegen-no-attempt", "src/fcp/codegen.py", "self.verifier.verify(fcp).attempt()", "self.verifier.verify(fcp)", ["C10"]),
    ("codegen-gen-before-verify", "src/fcp/codegen.py", "        self.verifier.verify(fcp).attempt()\n\n        templates = self._get_templates(template_dir)\n        skels = self._get_skels(skel_dir)\n\n        generator.gen(fcp, templates, skels, output_path)\n", "        templates = self._get_templates(template_dir)\n        skels = self._get_skels(skel_dir)\n\n        generator.gen(fcp, templates, skels, output_path)\n        self.verifier.verify(fcp).attempt()\n", ["C10"]),
    ("codegen-handle-ignores-type", "src/fcp/codegen.py", 'if result.get("type") == "file":', 'if result.get("type") != "print":', ["C10"]),
    ("verifier-first-node-only", V, "            for node in fcp.get(category).attempt():\n", "            for node in fcp.get(category).attempt()[:2]:\n", ["C10", "C09"]),
    ("verifier-signal-block-unchecked", V, "        for category in self.categories:\n            self.run_checks(category, fcp).attempt()", "        for category in self.categories:\n            if category == \"signal_block\":\n                continue\n            self.run_checks(category, fcp).attempt()", ["C10"]),
    ("cli-ignores-result", "src/fcp/__main__.py", "    if result.is_err():\n        print(logger.error(result.err().results_in(\"Failed to generate fcp\")))", "    if result.is_err() and False:\n        print(logger.error(result.err().results_in(\"Failed to generate fcp\")))", ["C10"]),
    ("cli-cleans-output-before-verify", "src/fcp/__main__.py", "    generator_manager = GeneratorManager(make_general_verifier())\n    result = generator_manager.generate(", "    import shutil\n    shutil.rmtree(output, ignore_errors=True)\n    generator_manager = GeneratorManager(make_general_verifier())\n    result = generator_manager.generate(", ["C10"]),
    ("cli-verifier-without-general-checks", "src/fcp/__main__.py", "    generator_manager = GeneratorManager(make_general_verifier())", "    from .verifier import Verifier\n    generator_manager = GeneratorManager(Verifier())", ["C10"]),
    ("reflection-minmax-swapped", "src/fcp/specs/struct_field.py", '"min_value": self.min_value,\n            "max_value": self.max_value,', '"min_value": self.max_value,\n            "max_value": self.min_value,', ["C12"]),
    ("reflection-chain-reversed", "src/fcp/specs/type.py", '                "size": self.size,\n            }\n        ] + self.underlying_type.reflection()', '                "size": self.size,\n            }\n        ][::-1] + self.underlying_type.reflection()[::-1]', ["C12"]),
    ("reflection-array-size-dropped", "src/fcp/specs/type.py", '                "size": self.size,', '                "size": 1 if self.size == 2 else self.size,', ["C12"]),
    ("reflection-fieldid-u16", "src/fcp/reflection/reflection.fcp", "field_id @1: u32,", "field_id @1: u16,", ["C12"]),
    ("reflection-signal-fields-dropped", "src/fcp/specs/signal_block.py", "                for name, value in self.fields.items()", "                for name, value in list(self.fields.items())[:1]", ["C12"]),
    ("dbc-plus8", "plugins/fcp_dbc/fcp_dbc/dbc_writer.py", "(piece.bitstart + 7) if piece.endianess", "(piece.bitstart + 8) if piece.endianess", ["C05"]),
    ("dbc-plus7-when-multibyte", "plugins/fcp_dbc/fcp_dbc/dbc_writer.py", '(piece.bitstart + 7) if piece.endianess != "little" else piece.bitstart', '(piece.bitstart + 7) if piece.endianess != "little" and piece.bitlength > 8 else piece.bitstart', ["C05"]),
    ("dbc-signed-inverted-enum", "plugins/fcp_dbc/fcp_dbc/dbc_writer.py", "is_signed=piece.type.is_signed(),", "is_signed=piece.type.is_signed() or piece.bitlength == 13,", ["C05"]),
    ("dbc-dlc-floor", "plugins/fcp_dbc/fcp_dbc/dbc_writer.py", "dlc = ceil((piece.bitstart + piece.bitlength) / 8)", "dlc = max(1, (piece.bitstart + piece.bitlength) // 8)", ["C05", "C14"]),
    ("dbc-mux-ids-from-1", "plugins/fcp_dbc/fcp_dbc/dbc_writer.py", "list(range(0, mux_count))", "list(range(1, mux_count + 1))", ["C05"]),
    ("dbc-bus-default-changed", "plugins/fcp_dbc/fcp_dbc/dbc_writer.py", 'bus = impl.get_field("bus", "default").unwrap()', 'bus = impl.get_field("bus", "default").unwrap() if impl.name == impl.type else "default"', ["C05"]),
    ("dbc-limit-72", "plugins/fcp_dbc/fcp_dbc/dbc_writer.py", "if msg_bitlength > 64:", "if msg_bitlength > 72:", ["C14"]),
    ("dbc-limit-first-piece", "plugins/fcp_dbc/fcp_dbc/dbc_writer.py", "msg_bitlength = encoding[-1].bitstart + encoding[-1].bitlength", "msg_bitlength = encoding[0].bitstart + encoding[-1].bitlength", ["C14"]),
    ("dbc-float-only-f32", "plugins/fcp_dbc/fcp_dbc/dbc_writer.py", "is_float=isinstance(piece.type, (FloatType, DoubleType))", "is_float=isinstance(piece.type, FloatType)", ["C05"]),
    # (returning 0 instead of raising in PackedEncoder._get_type_length is *equivalent* for C14: generation of a CAN binding
    #  with a str / [T] / Optional member then still fails, with AttributeError in both writers)
    ("sched-gt", "plugins/fcp_can_c/templates/can_device_c.jinja", "last_send_t[{{ loop.index0 }}] >= CAN_MSG_PERIOD", "last_send_t[{{ loop.index0 }}] > CAN_MSG_PERIOD", ["C19"]),
    ("sched-wrong-index", "plugins/fcp_can_c/templates/can_device_c.jinja", "        last_send_t[{{ loop.index0 }}] = time;", "        last_send_t[{{ [loop.index0, 1] | min }}] = time;", ["C19"]),
    ("sched-no-early-return", "plugins/fcp_can_c/templates/can_device_c.jinja", "    if (last_call_t == time) return;\n", "", ["C19"]),
    ("sched-last-call-not-updated", "plugins/fcp_can_c/templates/can_device_c.jinja", "    last_call_t = time;\n", "    if (time > last_call_t) last_call_t = time;\n", ["C19"]),
    ("sched-signed-compare", "plugins/fcp_can_c/templates/can_device_c.jinja", "(time - last_send_t[{{ loop.index0 }}] >= CAN_MSG_PERIOD", "((int32_t)(time - last_send_t[{{ loop.index0 }}]) >= CAN_MSG_PERIOD", ["C19"]),
    ("sched-stale-frame", "plugins/fcp_can_c/templates/can_device_c.jinja", "        CanFrame frame = can_encode_msg_{{ message.name_snake }}(&dev->{{ message.name_snake }});", "        static CanFrame frame; if (last_send_t[{{ loop.index0 }}] == 0) frame = can_encode_msg_{{ message.name_snake }}(&dev->{{ message.name_snake }});", ["C19"]),
    ("c-bitmask-wide", "plugins/fcp_can_c/templates/can_signal_parser.c", "#define set_bitfield(data, start, length) ((((uint64_t)data & bitmask(length)) << start))", "#define set_bitfield(data, start, length) ((((uint64_t)data & bitmask(length - (length > 40))) << start))", ["C06"]),
    ("c-dlc-last-start", "plugins/fcp_can_c/fcp_can_c/can_c_writer.py", "max_dlc = max(max_dlc, ceil((piece.bitstart + piece.bitlength) / 8))", "max_dlc = max(max_dlc, ceil((piece.bitstart + 1) / 8))", ["C06"]),
    ("c-int16-no-signconv", "plugins/fcp_can_c/templates/can_signal_parser.c", "int16_t can_decode_signal_as_int16_t(const CanFrame *msg, uint32_t start, uint32_t length,\n                                     float scale, float offset, bool is_big_endian) {\n    int64_t bitfield = bitfield_sign_conv(get_bitfield(can_word(msg), start, length), length);", "int16_t can_decode_signal_as_int16_t(const CanFrame *msg, uint32_t start, uint32_t length,\n                                     float scale, float offset, bool is_big_endian) {\n    int64_t bitfield = get_bitfield(can_word(msg), start, length);", ["C06"]),
    ("c-id-truncated", "plugins/fcp_can_c/templates/can_device_c.jinja", "CanFrame message = {.id = {{message.frame_id}}, .dlc = {{message.dlc}}};\n\tuint64_t word = 0;", "CanFrame message = {.id = {{message.frame_id % 1024}}, .dlc = {{message.dlc}}};\n\tuint64_t word = 0;", ["C06"]),
    ("c-carrier-too-small", "plugins/fcp_can_c/fcp_can_c/can_c_writer.py", "    if x <= 8:\n        return 8", "    if x <= 9:\n        return 8", ["C06"]),
    ("c-signconv-off-by-one", "plugins/fcp_can_c/templates/can_signal_parser.c", "    if (length < 64 && get_bit(bitfield, (length - 1))) {", "    if (length < 63 && get_bit(bitfield, (length - 1))) {", ["C06"]),
    ("cpp-encode-decl-order", "plugins/fcp_cpp/fcp_cpp/fcp.h.j2", '    {%- for signal in struct.fields | sort(attribute="field_id") %}\n        {{signal.name}}_.Encode(buffer, endianess);', '    {%- for signal in struct.fields %}\n        {{signal.name}}_.Encode(buffer, endianess);', ["C15", "C03"]),
    ("cpp-carrier-rounds-down", "plugins/fcp_cpp/fcp_cpp/generator.py", "return int(max(2 ** math.ceil(math.log2(n)), 8))", "return int(max(2 ** math.floor(math.log2(n)) if n > 33 else 2 ** math.ceil(math.log2(n)), 8))", ["C03"]),
    ("cpp-getword-signmask", "plugins/fcp_cpp/fcp_cpp/buffer.h", "        bool msb_set = (result >> (bitlength-1)) == 1;", "        bool msb_set = (result >> (bitlength-1)) == 1 && bitlength != 13;", ["C03"]),
    ("cpp-enum-size-offbyone", "src/fcp/specs/enum.py", "        if m == 1 or m == 0:\n            return 1", "        if m == 1 or m == 0:\n            return 1\n        if m == 8:\n            return 3", ["C03", "C04"]),
    ("cpp-decode-reversed", "plugins/fcp_cpp/fcp_cpp/fcp.h.j2", '    {%- for signal in struct.fields | sort(attribute="field_id") %}\n        auto {{signal.name}} = {{signal.name | to_pascal_case}}Type::Decode(buffer, endianess);', '    {%- for signal in struct.fields | sort(attribute="field_id", reverse=(struct.fields | length) == 5) %}\n        auto {{signal.name}} = {{signal.name | to_pascal_case}}Type::Decode(buffer, endianess);', ["C03"]),
    ("cpp-optional-flag-1bit", "plugins/fcp_cpp/fcp_cpp/decoders.h", "        Unsigned<std::uint8_t, 8>(data_.has_value() ? 1 : 0).Encode(buffer);", "        Unsigned<std::uint8_t, 1>(data_.has_value() ? 1 : 0).Encode(buffer);", ["C03"]),
    ("cpp-string-len-u16", "plugins/fcp_cpp/fcp_cpp/decoders.h", "        Unsigned<std::uint32_t, 32>(data_.size()).Encode(buffer);\n        for (const auto& c: data_) {", "        Unsigned<std::uint32_t, 16>(data_.size()).Encode(buffer);\n        for (const auto& c: data_) {", ["C03"]),
    ("can-revert-short-bus-copy", CS, "std::min(bus_name.value().size(), bus_name_arr.size())", "4", ["C18"]),
    ("can-revert-tag-read", CS, "std::string bus_name_str(bus_name.begin(), std::find(bus_name.begin(), bus_name.end(), '\\0'));", "std::string bus_name_str(bus_name.begin(), bus_name.end());", ["C18"]),
    ("can-msgname-ignores-bus", CS, """if (sid == {{impl.fields.get('id')}} && bus_name_str == "{{impl.fields.get('bus', 'unkn')}}") {""", """if (sid == {{impl.fields.get('id')}}) {""", ["C18"]),
    ("can-msgname-ignores-id", CS, """if (sid == {{impl.fields.get('id')}} && bus_name_str == "{{impl.fields.get('bus', 'unkn')}}") {""", """if (bus_name_str == "{{impl.fields.get('bus', 'unkn')}}") {""", ["C18"]),
    ("can-sid-low-byte", CS, """if (sid == {{impl.fields.get('id')}} && bus_name_str""", """if ((sid & 0xFF) == ({{impl.fields.get('id')}} & 0xFF) && bus_name_str""", ["C18"]),
    ("can-dlc-fixed-8", CS, "static_cast<std::uint8_t>(encoded.value().size()),", "static_cast<std::uint8_t>(8),", ["C18"]),
    ("can-data-copy-short", CS, "std::copy_n(encoded.value().begin(), encoded.value().size(), data.begin());", "std::copy_n(encoded.value().begin(), std::min<std::size_t>(encoded.value().size(), 7), data.begin());", ["C18"]),
    ("can-getsid-first-binding", CS, """        if (msg_name == "{{impl.name}}") {
            return {{impl.fields.get('id')}};
        }""", """        if (msg_name == "{{impl.name}}" || true) {
            return {{impl.fields.get('id')}};
        }""", ["C18"]),
    ("can-bus-first-char", CS, """bus_name_str == "{{impl.fields.get('bus', 'unkn')}}") {""", """bus_name_str[0] == "{{impl.fields.get('bus', 'unkn')}}"[0]) {""", ["C18"]),
    ("can-msgname-all-protocols", CS, """        {% for impl in fcp.get_matching_impls("can") %}
        if (sid ==""", """        {% for impl in fcp.impls if impl.fields.get('id') is not none %}
        if (sid ==""", ["C18"]),
    ("dyn-revert-field-sort", DY, "                std::sort(fields.begin(), fields.end(),\n                        [](const StructField& a, const StructField& b) { return a.field_id < b.field_id; });\n", "", ["C13"]),
    ("dyn-decode-signed-unsigned", DY, "return buffer.GetWord(size, true);", "return buffer.GetWord(size);", ["C13"]),
    ("dyn-decode-string-len16", DY, "            auto length = buffer.GetWord(32);\n            std::vector<std::uint8_t> data{};", "            auto length = buffer.GetWord(16);\n            std::vector<std::uint8_t> data{};", ["C13"]),
    ("dyn-encode-string-len16", DY, "buffer.PushWord(data.size(), 32);", "buffer.PushWord(data.size(), 16);", ["C13"]),
    ("dyn-encode-optional-flag16", DY, "                buffer.PushWord(1, 8);", "                buffer.PushWord(1, 16);", ["C13"]),
    ("dyn-decode-enum-bits", DY, "            auto bitsize = std::ceil(std::log2(max_value+1));\n\n            auto enum_value = DecodeUnsigned", "            auto bitsize = std::ceil(std::log2(max_value));\n\n            auto enum_value = DecodeUnsigned", ["C13"]),
    ("dyn-encode-array-short", DY, "            for (unsigned i=0; i<type.size; i++) {\n                auto encoded = _Encode(*type.underlying_type, j[i]);", "            for (unsigned i=0; i+1<type.size || i==0; i++) {\n                auto encoded = _Encode(*type.underlying_type, j[i]);", ["C13"]),
    ("dyn-decode-double-as-float", DY, "            double data;\n            auto word = buffer.GetWord(64);\n            std::memcpy(&data, &word, sizeof(data));", "            double data;\n            auto word = buffer.GetWord(64);\n            float tmp; std::memcpy(&data, &word, sizeof(data)); tmp = data; data = tmp;", ["C13"]),
    ("static-array-fromjson-short", "plugins/fcp_cpp/fcp_cpp/decoders.h", "for (std::size_t i=0; i<N && i<j.size(); i++) {", "for (std::size_t i=0; i+1<N && i<j.size(); i++) {", ["C13", "C03"]),
    ("static-signed-decodejson-unsigned", "plugins/fcp_cpp/fcp_cpp/decoders.h", "        auto word = buffer.GetWord(BitSize, true, endianess);\n        return Signed(static_cast<UnderlyingType>(word));", "        auto word = buffer.GetWord(BitSize, BitSize != 13, endianess);\n        return Signed(static_cast<UnderlyingType>(word));", ["C13", "C03"]),
    ("candyn-revert-tag-read", CD, "std::string bus_name_str(bus_name.begin(), std::find(bus_name.begin(), bus_name.end(), '\\0'));", "std::string bus_name_str(bus_name.begin(), bus_name.end());", ["C18"]),
    ("candyn-bus-copy-3", CD, """std::copy(impl.fields.at("bus").begin(), impl.fields.at("bus").end(), bus_name.begin());""", """std::copy(impl.fields.at("bus").begin(), impl.fields.at("bus").begin() + std::min<std::size_t>(3, impl.fields.at("bus").size()), bus_name.begin());""", ["C18"]),
    ("candyn-sid-11-bits", CD, """sid == std::stoi(impl.fields.at("id"));""", """(sid & 0x7FF) == std::stoi(impl.fields.at("id"));""", ["C18"]),
    ("candyn-dlc-8", CD, "std::uint8_t dlc = encoded.value().size();", "std::uint8_t dlc = 8;", ["C18"]),
    ("serde-array-last-elem", S, "    for i in range(type.size):\n        _encode(buffer, fcp, type.underlying_type, data[i])", "    for i in range(type.size):\n        _encode(buffer, fcp, type.underlying_type, data[min(i, 1)])", ["C01", "C02"]),
]


def run_check(pid, repo, nproc):
    t = time.time()
    env = dict(os.environ, VERIF_REPO=repo, VERIF_NPROC=str(nproc), VERIF_REPLAY_DIR=os.path.join(repo, ".verif_replays"),
               VERIF_EVIDENCE_DIR=os.path.join(repo, ".verif_evidence"))
    p = subprocess.run(["sh", os.path.join(VERIF, "run.sh"), pid, "quick"], capture_output=True, text=True, env=env)
    viol = [l for l in p.stdout.splitlines() if l.startswith("VIOLATION")]
    return p.returncode, len(viol), time.time() - t, p.stdout[-600:]


def one(m, only, nproc):
    name, f, old, new, checks = m
    out = []
    wt = f"/tmp/vmut/{name}"
    subprocess.run(["git", "-C", REPO, "worktree", "remove", "--force", wt], capture_output=True)
    r = subprocess.run(["git", "-C", REPO, "worktree", "add", "--detach", wt], capture_output=True, text=True)
    if r.returncode:
        return [(name, "SKIP", r.stderr[-200:])]
    try:
        path = os.path.join(wt, f)
        src = open(path).read()
        if src.count(old) < 1:
            return [(name, "SKIP", f"pattern not found in {f}")]
        open(path, "w").write(src.replace(old, new, 1))
        for pid in checks:
            if only and pid not in only:
                continue
            code, nv, dt, tail = run_check(pid, wt, nproc)
            status = "CAUGHT" if code == 1 and nv > 0 else ("INCONCLUSIVE" if code == 2 else "MISSED")
            out.append((f"{name}:{pid}", status, f"exit {code}, {nv} VIOLATION lines, {dt:.0f}s" +
                        ("" if status == "CAUGHT" else "\n    " + tail.replace("\n", "\n    ")[-500:])))
    finally:
        subprocess.run(["git", "-C", REPO, "worktree", "remove", "--force", wt], capture_output=True)
    return out


def main():
    from concurrent.futures import ThreadPoolExecutor

    flt = [a for a in sys.argv[1:] if not a.startswith("--")]
    only, par = None, 3
    for a in sys.argv[1:]:
        if a.startswith("--checks="):
            only = a.split("=")[1].split(",")
        if a.startswith("--par="):
            par = int(a.split("=")[1])
    extra = os.path.join(VERIF, "tools", "mutations_extra.json")
    muts = list(MUTATIONS)
    if os.path.exists(extra):
        muts += [tuple(m) for m in json.load(open(extra))]
    muts = [m for m in muts if (not flt or any(x in m[0] for x in flt)) and (not only or set(only) & set(m[4]))]
    os.makedirs("/tmp/vmut", exist_ok=True)
    results = []
    with ThreadPoolExecutor(par) as ex:
        for out in ex.map(lambda m: one(m, only, max(2, 16 // par)), muts):
            for name, status, info in out:
                print(f"{name}: [{status}] {info}", flush=True)
                results.append((name, status))
    bad = [r for r in results if r[1] not in ("CAUGHT", "SKIP")]
    print(f"{len(results) - len(bad)}/{len(results)} ok; not caught: {bad}")
    subprocess.run(["git", "-C", REPO, "worktree", "prune"], capture_output=True)


if __name__ == "__main__":
    main()
