#!/usr/bin/env python3
"""Confirm seeded breaking changes and run the checks against them.

usage: tools/run_seeded.py <dir with <ID>_k/{patch.diff,demo.py,meta.json}> ... [--keep] [--checks=C01,C02]
For each change: scratch worktree of /repo HEAD -> (1) demo passes without the patch, (2) patch applies, existing
suite still passes (172), demo fails, (3) the property's quick check (and related ones) run with VERIF_REPO=<worktree>.
Confirmed changes are copied to /verif/seeded/<ID>_k/ with the outcome recorded in meta.json.  /repo is never touched."""
import json
import os
import shutil
import subprocess
import sys
import time

VERIF = os.path.dirname(os.path.dirname(os.path.abspath(__file__)))
REPO = "/repo"
RELATED = {"C01": ["C01", "C02"], "C02": ["C02", "C01"], "C04": ["C04"], "C09": ["C09"], "C15": ["C15", "C02", "C04", "C13", "C03"],
           "C16": ["C16"], "C08": ["C08"], "C20": ["C20", "C08"], "C12": ["C12", "C20"], "C10": ["C10"], "C14": ["C14", "C09", "C10"],
           "C05": ["C05"], "C06": ["C06", "C04"], "C19": ["C19"], "C03": ["C03"], "C18": ["C18"], "C13": ["C13"]}


def sh(cmd, **kw):
    return subprocess.run(cmd, shell=True, capture_output=True, text=True, **kw)


def claimed():
    m = json.load(open(os.path.join(VERIF, "MANIFEST.json")))
    return {c["property_id"] for c in m["checks"]}


def process(src, only, nproc):
    name = os.path.basename(src.rstrip("/"))
    meta = json.load(open(os.path.join(src, "meta.json")))
    prop = meta.get("property", name.split("_")[0])
    wt = f"/tmp/vseed/{name}"
    sh(f"git -C {REPO} worktree remove --force {wt}")
    r = sh(f"git -C {REPO} worktree add --detach {wt}")
    if r.returncode:
        return name, {"error": r.stderr[-300:]}
    out = {"property": prop}
    try:
        env = f"PYTHONPATH={wt}/src"
        demo = os.path.join(src, "demo.py")
        r0 = sh(f"cd {wt} && {env} /venv/bin/python {demo} {wt}", timeout=600)
        out["demo_without_patch"] = "pass" if r0.returncode == 0 else f"FAIL({r0.returncode})"
        ra = sh(f"cd {wt} && git apply {os.path.join(src, 'patch.diff')}")
        if ra.returncode:
            out["apply"] = "FAILED: " + ra.stderr[-300:]
            return name, out
        out["apply"] = "ok"
        rt = sh(f"cd {wt} && {env} /venv/bin/python -m pytest -q -p no:cacheprovider --timeout=900 "
                f"--continue-on-collection-errors 2>&1 | tail -1", timeout=1800)
        out["suite_with_patch"] = rt.stdout.strip()[-80:]
        r1 = sh(f"cd {wt} && {env} /venv/bin/python {demo} {wt}", timeout=600)
        out["demo_with_patch"] = "pass" if r1.returncode == 0 else f"fail({r1.returncode})"
        out["confirmed"] = (r0.returncode == 0 and r1.returncode != 0 and "172 passed" in out["suite_with_patch"])
        out["checks"] = {}
        have = claimed()
        rel = RELATED.get(prop, [prop])
        if "--own" in sys.argv:
            rel = [prop] + (["C13"] if name == "C15_r3_b" else [])
        for pid in rel:
            if pid not in have or (only and pid not in only):
                continue
            t = time.time()
            e = dict(os.environ, VERIF_REPO=wt, VERIF_NPROC=str(nproc), VERIF_REPLAY_DIR=f"{wt}/.verif_replays",
                     VERIF_EVIDENCE_DIR=f"{wt}/.verif_evidence")
            try:
                p = subprocess.run(["sh", os.path.join(VERIF, "run.sh"), pid, "quick"], capture_output=True, text=True,
                                   env=e, timeout=1200)
            except subprocess.TimeoutExpired as ex:
                subprocess.run("pkill -9 -f 'verif.check %s --tier quick' || true" % pid, shell=True)
                p = subprocess.CompletedProcess([], 124, stdout=(ex.stdout or b"").decode() if isinstance(ex.stdout, bytes) else (ex.stdout or ""), stderr="timeout")
            nv = len([l for l in p.stdout.splitlines() if l.startswith("VIOLATION")])
            first = next((l for l in p.stdout.splitlines() if l.strip().startswith("what:")), "")
            status = "CAUGHT" if p.returncode == 1 and nv else ("INCONCLUSIVE" if p.returncode == 2 else "MISSED")
            out["checks"][pid] = {"status": status, "exit": p.returncode, "violation_lines": nv,
                                  "seconds": round(time.time() - t), "first": first.strip()[:300],
                                  "tail": "" if status == "CAUGHT" else p.stdout[-400:]}
    finally:
        sh(f"git -C {REPO} worktree remove --force {wt}")
    return name, out


def main():
    from concurrent.futures import ThreadPoolExecutor

    args = [a for a in sys.argv[1:] if not a.startswith("--")]
    only = None
    for a in sys.argv[1:]:
        if a.startswith("--checks="):
            only = a.split("=")[1].split(",")
    dirs = []
    for a in args:
        if os.path.exists(os.path.join(a, "patch.diff")):
            dirs.append(a)
        else:
            dirs += sorted(os.path.join(a, d) for d in os.listdir(a) if os.path.exists(os.path.join(a, d, "patch.diff")))
    os.makedirs("/tmp/vseed", exist_ok=True)
    par = 3
    for a in sys.argv[1:]:
        if a.startswith("--par="):
            par = int(a.split("=")[1])
    with ThreadPoolExecutor(par) as ex:
        for name, out in ex.map(lambda d: process(d, only, max(2, 16 // par)), dirs):
            src = [d for d in dirs if os.path.basename(d.rstrip("/")) == name][0]
            print(f"== {name}: confirmed={out.get('confirmed')} demo(no patch)={out.get('demo_without_patch')} "
                  f"demo(patch)={out.get('demo_with_patch')} suite={out.get('suite_with_patch')} apply={out.get('apply')}")
            for pid, c in out.get("checks", {}).items():
                print(f"   {pid}: {c['status']} exit={c['exit']} {c['violation_lines']} VIOLATION lines {c['seconds']}s  {c['first'][:160]}")
                if c["status"] != "CAUGHT":
                    print("      " + c["tail"].replace("\n", "\n      "))
            sys.stdout.flush()
            if out.get("confirmed") or "--keep" in sys.argv:
                dst = os.path.join(VERIF, "seeded", name)
                os.makedirs(dst, exist_ok=True)
                for f in ("patch.diff", "demo.py"):
                    if os.path.abspath(os.path.join(src, f)) != os.path.abspath(os.path.join(dst, f)):
                        shutil.copy(os.path.join(src, f), os.path.join(dst, f))
                meta = json.load(open(os.path.join(src, "meta.json")))
                prev = {}
                if os.path.exists(os.path.join(dst, "meta.json")):
                    prev = json.load(open(os.path.join(dst, "meta.json"))).get("verif", {})
                chk = dict(prev.get("checks", {}))
                for pid, c in out.get("checks", {}).items():
                    chk[pid] = {k: c[k] for k in ("status", "exit", "violation_lines", "seconds", "first")}
                meta["verif"] = {"confirmed_by_me": out.get("confirmed"),
                                 "what_i_ran": [
                                     "scratch worktree of /repo HEAD under /tmp/vseed (removed afterwards)",
                                     f"demo without patch: {out.get('demo_without_patch')}",
                                     f"git apply patch.diff: {out.get('apply')}",
                                     f"existing suite with patch: {out.get('suite_with_patch')}",
                                     f"demo with patch: {out.get('demo_with_patch')}",
                                     "quick checks with VERIF_REPO=<worktree>: see checks"],
                                 "checks": chk}
                json.dump(meta, open(os.path.join(dst, "meta.json"), "w"), indent=1)
    sh(f"git -C {REPO} worktree prune")


if __name__ == "__main__":
    main()
