"""Reference packed CAN layout, written from the property text (C04): flatten nested structs, optionally unroll
arrays, leaves in ascending field id, tiling from bit 0, width = wire width of the leaf type."""
from __future__ import annotations

from .shapes import Schema, enum_width


def leaf_list(schema: Schema, top: str, unroll: bool, width_of=None, ids_of=None):
    """-> [(hier_name, field_name, kind, width)] in wire order.

    width_of(t) may return a symbolic width for scalar types; ids_of(struct, field) a concrete id override."""
    out = []

    def w(t):
        if width_of is not None:
            r = width_of(t)
            if r is not None:
                return r
        k = t[0]
        if k in ("u", "i"):
            return t[1]
        if k == "f32":
            return 32
        if k == "f64":
            return 64
        if k == "enum":
            return enum_width(schema.enum_max(t[1]))
        if k == "arr":
            return t[2] * w(t[1])
        raise ValueError(f"no static width: {t}")

    def field(sname, fname, t, prefix, base_name):
        k = t[0]
        if k == "struct":
            struct(t[1], prefix + fname + "::")
        elif k == "arr" and unroll:
            for i in range(t[2]):
                field(sname, f"{fname}_{i}", t[1], prefix, base_name)
        else:
            out.append((prefix + fname, base_name, t, w(t)))

    def struct(sname, prefix):
        fs = schema.struct(sname)
        key = (lambda f: ids_of(sname, f[0])) if ids_of else (lambda f: f[1])
        for fn, _, ft in sorted(fs, key=key):
            field(sname, fn, ft, prefix, fn)

    struct(top, "")
    return out
