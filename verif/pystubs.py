"""Further C-boundary models: libm log2 observed through floor/ceil, numeric type names with a symbolic width."""
from __future__ import annotations

import math

import z3

from .pysym import SymInt, SymBool, EngineLimit, W, sym_int

LOG2_MAX_BITS = 47


class SymLog2:
    """math.log2(m) for a symbolic positive int m, observable only through +k, floor, ceil.

    Contract (checked concretely on every run by `check_log2_contract`): log2 and float '+' are monotone
    non-decreasing, log2(2^k) == k exactly, floor(log2(2^k - 1) + 1) == k and floor(log2(2^k + 1) + 1) == k + 1
    for k <= 47.  Then floor(log2(m) + c) = bit_length(m) - 1 + c for every 1 <= m < 2^47."""

    def __init__(self, m: SymInt, add=0):
        if m.hi >= (1 << LOG2_MAX_BITS):
            raise EngineLimit("log2 of a value that may be >= 2^47")
        if m.lo < 1 and add == 0:
            if m < 1:  # forks: the real log2 raises on this side
                raise ValueError("math domain error")
        self.m, self.add = m, add

    def __add__(self, k):
        if type(k) is not int:
            raise EngineLimit("log2 + non-int")
        return SymLog2(self.m, self.add + k)

    __radd__ = __add__

    def _floorlog(self):
        e = z3.BitVecVal(0, W)
        for k in range(1, LOG2_MAX_BITS + 1):
            e = z3.If(self.m.e >= (1 << k), z3.BitVecVal(k, W), e)
        return e

    def __floor__(self):
        return SymInt._mk(self._floorlog() + self.add, self.add, LOG2_MAX_BITS + self.add)

    def __ceil__(self):
        pow2 = (self.m.e & (self.m.e - 1)) == 0
        return SymInt._mk(z3.If(pow2, self._floorlog(), self._floorlog() + 1) + self.add, self.add,
                          LOG2_MAX_BITS + 1 + self.add)


def check_log2_contract():
    bad = []
    for k in range(1, LOG2_MAX_BITS + 1):
        if math.log2(1 << k) != k:
            bad.append(f"log2(2^{k}) != {k}")
        if math.floor(math.log2((1 << k) - 1) + 1) != k and k > 1:
            bad.append(f"floor(log2(2^{k}-1)+1) != {k}")
        if math.floor(math.log2((1 << k) + 1) + 1) != k + 1:
            bad.append(f"floor(log2(2^{k}+1)+1) != {k + 1}")
        if k > 1 and math.ceil(math.log2((1 << k) - 1)) != k:
            bad.append(f"ceil(log2(2^{k}-1)) != {k}")
        if math.ceil(math.log2((1 << k) + 1)) != k + 1:
            bad.append(f"ceil(log2(2^{k}+1)) != {k + 1}")
    return bad


def sym_log2(x):
    if type(x) is SymInt:
        return SymLog2(x)
    if type(x) is SymLog2:
        raise EngineLimit("log2(log2)")
    return math.log2(x)


def sym_floor(x):
    if type(x) is SymLog2:
        return x.__floor__()
    if type(x) is SymInt:
        return x
    return math.floor(x)


def sym_ceil(x):
    if type(x) is SymLog2:
        return x.__ceil__()
    if type(x) is SymInt:
        return x
    if type(x) is SymRatio:
        return x.__ceil__()
    return math.ceil(x)


class MathStub:
    log2 = staticmethod(sym_log2)
    floor = staticmethod(sym_floor)
    ceil = staticmethod(sym_ceil)

    def __getattr__(self, n):
        return getattr(math, n)


class SymRatio:
    """sym_int / k (true division) observed only through ceil(): ceil(a / k) for integer a, positive int k.
    (exact for |a| < 2^53, where the float quotient is monotone and exact at multiples of k.)"""

    def __init__(self, a, k):
        if type(k) is not int or k <= 0:
            raise EngineLimit("ratio with non-positive/symbolic denominator")
        if a.hi >= (1 << 53) or a.lo <= -(1 << 53):
            raise EngineLimit("ratio numerator too large for the float model")
        self.a, self.k = a, k

    def __ceil__(self):
        return -((-self.a) // self.k)

    def __floor__(self):
        return self.a // self.k


def enable_ratio():
    """Let `SymInt / int` produce a SymRatio (used by `ceil((bitstart + bitlength) / 8)` in the writers)."""
    def truediv(self, k):
        return SymRatio(self, k)
    SymInt.__truediv__ = truediv


class _Digits:
    def __init__(self, n):
        self.n = n


class SymWidthName:
    """Name of a numeric type ('u<N>' / 'i<N>') whose decimal suffix N is symbolic."""

    __class__ = property(lambda s: str)  # type: ignore

    def __init__(self, letter: str, n):
        self.letter, self.n = letter, n

    def __getitem__(self, i):
        if i == 0:
            return self.letter
        if isinstance(i, slice) and i.start == 1 and i.stop is None and i.step is None:
            return _Digits(self.n)
        raise EngineLimit("unexpected indexing of a symbolic type name")

    def startswith(self, p):
        if len(p) == 1:
            return self.letter == p
        raise EngineLimit("startswith on symbolic type name")

    def __str__(self):
        return f"{self.letter}<{self.n}>"

    __repr__ = __str__

    def __format__(self, spec):
        return str(self)

    def __hash__(self):
        return hash(self.letter)

    def __eq__(self, o):
        if isinstance(o, SymWidthName):
            if self.letter != o.letter:
                return False
            return self.n == o.n
        if type(o) is str:
            if not o or o[0] != self.letter or not o[1:].isdigit():
                return False
            return self.n == int(o[1:])
        return False

    def __add__(self, o):
        from .pysym import SymText
        return SymText([self, o])

    def __radd__(self, o):
        from .pysym import SymText
        return SymText([o, self])


def sym_int_ext(x=0, *a):
    if type(x) is _Digits:
        return x.n
    return sym_int(x, *a)


# ---------------------------------------------------------------- set / dict by equality (no hashing)
class _BuiltinLike(type):
    """isinstance(x, <stub>) answers like the builtin it stands for."""
    def __instancecheck__(cls, x):
        return type(x) is cls or isinstance(x, cls._builtin)


class SymSet(metaclass=_BuiltinLike):
    """Stand-in for `set` / `frozenset` inside a module under test: membership by == (which forks on symbolic
    operands) instead of by hash, insertion order kept.  Only what checks of this code base use is provided; anything
    else is an AttributeError -> the run is inconclusive, never wrong."""
    _builtin = (set, frozenset)

    def __init__(self, it=()):
        self._xs = []
        for x in it:
            self.add(x)

    def add(self, x):
        if not self.__contains__(x):
            self._xs.append(x)

    def __contains__(self, x):
        for y in self._xs:
            if x is y or x == y:
                return True
        return False

    def __iter__(self):
        return iter(list(self._xs))

    def __len__(self):
        return len(self._xs)

    def __bool__(self):
        return bool(self._xs)

    def discard(self, x):
        self._xs = [y for y in self._xs if not (x is y or x == y)]

    def remove(self, x):
        if x not in self:
            raise KeyError(x)
        self.discard(x)

    def update(self, *its):
        for it in its:
            for x in it:
                self.add(x)

    def copy(self):
        return SymSet(self._xs)

    def union(self, *its):
        r = SymSet(self._xs)
        r.update(*its)
        return r

    __or__ = lambda self, o: self.union(o)

    def intersection(self, o):
        o = o if isinstance(o, SymSet) else SymSet(o)
        return SymSet(x for x in self._xs if x in o)

    __and__ = intersection

    def difference(self, o):
        o = o if isinstance(o, SymSet) else SymSet(o)
        return SymSet(x for x in self._xs if x not in o)

    __sub__ = difference

    def issubset(self, o):
        o = o if isinstance(o, SymSet) else SymSet(o)
        return all(x in o for x in self._xs)

    def __eq__(self, o):
        o = o if isinstance(o, SymSet) else SymSet(o)
        return len(self) == len(o) and self.issubset(o)

    __hash__ = None


class SymDict(metaclass=_BuiltinLike):
    """Stand-in for `dict` inside a module under test: keys compared by ==, insertion order kept."""
    _builtin = (dict,)

    def __init__(self, *a, **k):
        self._ks, self._vs = [], []
        if a:
            src = a[0]
            for key, v in (src.items() if hasattr(src, "items") else src):
                self[key] = v
        for key, v in k.items():
            self[key] = v

    def _find(self, key):
        for i, y in enumerate(self._ks):
            if key is y or key == y:
                return i
        return -1

    def __setitem__(self, key, v):
        i = self._find(key)
        if i < 0:
            self._ks.append(key)
            self._vs.append(v)
        else:
            self._vs[i] = v

    def __getitem__(self, key):
        i = self._find(key)
        if i < 0:
            raise KeyError(key)
        return self._vs[i]

    def __contains__(self, key):
        return self._find(key) >= 0

    def get(self, key, default=None):
        i = self._find(key)
        return default if i < 0 else self._vs[i]

    def setdefault(self, key, default=None):
        i = self._find(key)
        if i < 0:
            self[key] = default
            return default
        return self._vs[i]

    def pop(self, key, *d):
        i = self._find(key)
        if i < 0:
            if d:
                return d[0]
            raise KeyError(key)
        self._ks.pop(i)
        return self._vs.pop(i)

    def keys(self):
        return list(self._ks)

    def values(self):
        return list(self._vs)

    def items(self):
        return list(zip(self._ks, self._vs))

    def __iter__(self):
        return iter(list(self._ks))

    def __len__(self):
        return len(self._ks)

    def __bool__(self):
        return bool(self._ks)

    __hash__ = None


def install_collections(*modules):
    """Rebind set / frozenset / dict in the given modules' namespaces (constructor calls only: literals and
    comprehensions are compiled to the real types, whose hashing of a proxy is a TypeError -> inconclusive)."""
    for m in modules:
        m.set = SymSet
        m.frozenset = SymSet
        m.dict = SymDict
