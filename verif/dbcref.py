"""Own minimal DBC reader (BO_/SG_/SIG_VALTYPE_/SG_MUL_VAL_/BU_) and DBC signal semantics as z3 terms."""
from __future__ import annotations

import re

import z3

BO = re.compile(r"^BO_ (\d+) (\w+) *: *(\d+) (\S+)")
SG = re.compile(r'^\s+SG_ (\w+) *(M|m\d+M?|)? *: *(\d+)\|(\d+)@([01])([+-]) *\(([^,]+),([^)]+)\) *\[([^|]*)\|([^\]]*)\] *"([^"]*)" *(.*)$')
VALTYPE = re.compile(r"^SIG_VALTYPE_ (\d+) (\w+) *: *(\d+) *;")
MULVAL = re.compile(r"^SG_MUL_VAL_ (\d+) (\w+) (\w+) ([^;]*);")
BU = re.compile(r"^BU_ *: *(.*)$")


def read_dbc(text: str):
    """-> {'messages': {id: {name, dlc, signals: {name: {...}}}}, 'nodes': [...]}"""
    msgs, nodes, cur = {}, [], None
    for line in text.splitlines():
        m = BO.match(line)
        if m:
            fid = int(m.group(1)) & 0x1FFFFFFF
            cur = {"id": fid, "extended": bool(int(m.group(1)) & 0x80000000), "name": m.group(2), "dlc": int(m.group(3)), "signals": {}, "order": []}
            msgs[fid] = cur
            continue
        m = SG.match(line)
        if m and cur is not None:
            mux = m.group(2) or ""
            cur["signals"][m.group(1)] = {
                "name": m.group(1), "start": int(m.group(3)), "length": int(m.group(4)),
                "byte_order": "little" if m.group(5) == "1" else "big", "signed": m.group(6) == "-",
                "scale": float(m.group(7)), "offset": float(m.group(8)), "unit": m.group(11),
                "is_mux": mux.endswith("M"), "mux_id": int(mux[1:].rstrip("M")) if mux.startswith("m") else None,
                "float": None, "mux_ranges": None, "mux_signal": None}
            cur["order"].append(m.group(1))
            continue
        m = VALTYPE.match(line)
        if m:
            fid = int(m.group(1)) & 0x1FFFFFFF
            if fid in msgs and m.group(2) in msgs[fid]["signals"]:
                msgs[fid]["signals"][m.group(2)]["float"] = {1: 32, 2: 64}.get(int(m.group(3)), None)
            continue
        m = MULVAL.match(line)
        if m:
            fid = int(m.group(1)) & 0x1FFFFFFF
            rs = []
            for part in m.group(4).split(","):
                a, b = part.strip().split("-")
                rs.append((int(a), int(b)))
            if fid in msgs and m.group(2) in msgs[fid]["signals"]:
                msgs[fid]["signals"][m.group(2)]["mux_ranges"] = rs
                msgs[fid]["signals"][m.group(2)]["mux_signal"] = m.group(3)
            continue
        m = BU.match(line)
        if m:
            nodes = m.group(1).split()
    return {"messages": msgs, "nodes": nodes}


def dbc_extract(frame, sig):
    """Raw bits of a DBC signal out of a 64-bit frame term (byte k of the frame = bits 8k+7..8k)."""
    L = sig["length"]
    s = sig["start"]
    if sig["byte_order"] == "little":
        if s + L > 64:
            return None
        return z3.Extract(s + L - 1, s, frame)
    byte, bit = s // 8, s % 8
    bits = []
    for _ in range(L):
        if byte > 7:
            return None
        bits.append(z3.Extract(8 * byte + bit, 8 * byte + bit, frame))
        if bit == 0:
            byte, bit = byte + 1, 7
        else:
            bit -= 1
    return bits[0] if L == 1 else z3.Concat(*bits)


def layout_extract(frame, bitstart, length, endian):
    """Raw bits of a layout leaf: little = bits [bitstart, bitstart+length); big (byte aligned) = those bytes with the
    most significant byte at the lowest address."""
    if bitstart + length > 64:
        return None
    if endian == "little" or length == 8:
        return z3.Extract(bitstart + length - 1, bitstart, frame)
    if bitstart % 8 or length % 8:
        return None
    bs = [z3.Extract(bitstart + 8 * k + 7, bitstart + 8 * k, frame) for k in range(length // 8)]
    return z3.Concat(*bs)
