"""Symbolic and concrete values for shapes."""
from __future__ import annotations

import struct as _struct

import z3

from .pysym import SymInt, SymFloat, SymStr, W
from .shapes import Schema

LEN_PATTERNS_QUICK = [[0], [1], [2], [1, 0, 2], [3, 1]]
LEN_PATTERNS_THOROUGH = [[0], [1], [2], [3], [1, 0, 2], [3, 1], [0, 2], [2, 1, 0, 3], [6], [20, 0, 1], [4, 5]]


MAX_SIGNED_LEAVES = 8


class Inst:
    """One symbolic instance of a struct value: value tree, assumptions (in-range), z3 variables by path."""

    def __init__(self, schema: Schema, pattern, tag=""):
        self.schema = schema
        self.pattern = pattern
        self.counter = 0
        self.assume = []
        self.vars = {}
        self.kinds = {}
        self.tag = tag
        self.depth = 0
        self.value = self._mk(("struct", schema.top), schema.top)

    def _len(self):
        n = self.pattern[self.counter % len(self.pattern)]
        self.counter += 1
        if self.depth > 1:
            n = min(n, 2)      # long lengths only for outermost containers: nested ones would multiply
        return n

    def _int(self, path, lo, hi):
        v, c = SymInt.fresh(self.tag + path, lo, hi)
        self.assume.append(c)
        self.vars[path] = v
        return v

    def _mk(self, t, path):
        k = t[0]
        if k in ("u", "i", "enum", "f32", "f64"):
            self.kinds[path] = (k, t[1] if k in ("u", "i", "enum") else None)   # width for ints, type name for enums
        if k == "u":
            return self._int(path, 0, (1 << t[1]) - 1)
        if k == "i":
            return self._int(path, -(1 << (t[1] - 1)), (1 << (t[1] - 1)) - 1)
        if k == "enum":
            return self._int(path, 0, self.schema.enum_max(t[1]))
        if k in ("f32", "f64"):
            n = 32 if k == "f32" else 64
            b = z3.BitVec(self.tag + path, n)
            if n == 32:
                # not a signalling NaN: no Python float packs to one (cvtsd2ss quiets) - stated assumption
                exp = z3.Extract(30, 23, b)
                man = z3.Extract(22, 0, b)
                q = z3.Extract(22, 22, b)
                self.assume.append(z3.Not(z3.And(exp == 255, man != 0, q == 0)))
            f = SymFloat(b, n)
            self.vars[path] = f
            return f
        if k == "str":
            self.depth += 1
            n = self._len()
            self.depth -= 1
            return SymStr(self._int(f"{path}[{i}]", 0, 127) for i in range(n))
        if k == "arr":
            return [self._mk(t[1], f"{path}[{i}]") for i in range(t[2])]
        if k == "dyn":
            self.depth += 1
            n = self._len()
            try:
                return [self._mk(t[1], f"{path}[{i}]") for i in range(n)]
            finally:
                self.depth -= 1
        if k == "opt":
            n = self._len()
            return None if n == 0 else self._mk(t[1], path + "?")
        if k == "struct":
            return {fn: self._mk(ft, f"{path}.{fn}") for fn, _, ft in self.schema.struct(t[1])}
        raise ValueError(t)


def instances(schema: Schema, tier: str):
    """All distinct instantiations (length/presence patterns) of the schema for this tier."""
    pats = LEN_PATTERNS_THOROUGH if tier == "thorough" else LEN_PATTERNS_QUICK
    seen = set()
    for p in pats:
        inst = Inst(schema, p)
        sig = structure_sig(inst.value)
        if sig in seen:
            continue
        seen.add(sig)
        if sum(1 for k, _ in inst.kinds.values() if k == "i") > MAX_SIGNED_LEAVES:
            continue   # every signed leaf forks the decoder's sign test: 2^n paths (stated bound)
        yield inst
        if inst.counter == 0:
            return


def structure_sig(v):
    if isinstance(v, SymStr):
        return ("s", len(v))
    if isinstance(v, list):
        return ("l",) + tuple(structure_sig(x) for x in v)
    if isinstance(v, dict):
        return ("d",) + tuple((k, structure_sig(x)) for k, x in v.items())
    if v is None:
        return None
    return "x"


# ---------------------------------------------------------------- concrete values <-> JSON (floats as bit patterns)
def to_json(v):
    if isinstance(v, tuple) and len(v) == 2 and v[0] in ("f32", "f64"):
        return {"__float__": v[0], "bits": v[1]}
    if isinstance(v, float):
        return {"__float__": "f64", "bits": int.from_bytes(_struct.pack("<d", v), "little")}
    if isinstance(v, dict):
        return {k: to_json(x) for k, x in v.items()}
    if isinstance(v, (list, tuple)):
        return [to_json(x) for x in v]
    if isinstance(v, (bytes, bytearray)):
        return list(v)
    return v


def from_json(v):
    """JSON -> plain Python value usable with the real codec (floats become Python floats)."""
    if isinstance(v, dict):
        if "__float__" in v:
            if v["__float__"] == "f32":
                return _struct.unpack("<f", int(v["bits"]).to_bytes(4, "little"))[0]
            return _struct.unpack("<d", int(v["bits"]).to_bytes(8, "little"))[0]
        return {k: from_json(x) for k, x in v.items()}
    if isinstance(v, list):
        return [from_json(x) for x in v]
    return v


def values_equal(schema: Schema, t, a, b) -> bool:
    """Concrete equality with floats compared bit-for-bit (in the field's wire width)."""
    k = t[0]
    if k in ("u", "i", "enum"):
        return type(a) is int and type(b) is int and a == b
    if k in ("f32", "f64"):
        if not isinstance(a, float) or not isinstance(b, float):
            return False
        fmt = "<f" if k == "f32" else "<d"
        try:
            return _struct.pack(fmt, a) == _struct.pack(fmt, b)
        except OverflowError:
            return False
    if k == "str":
        return isinstance(a, str) and isinstance(b, str) and a == b
    if k in ("arr", "dyn"):
        return isinstance(a, list) and isinstance(b, list) and len(a) == len(b) and all(
            values_equal(schema, t[1], x, y) for x, y in zip(a, b))
    if k == "opt":
        if a is None or b is None:
            return a is None and b is None
        return values_equal(schema, t[1], a, b)
    if k == "struct":
        fs = schema.struct(t[1])
        return isinstance(a, dict) and isinstance(b, dict) and set(a) == set(b) == {f for f, _, _ in fs} and all(
            values_equal(schema, ft, a[fn], b[fn]) for fn, _, ft in fs)
    raise ValueError(t)
