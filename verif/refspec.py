"""refspec - the canonical FCP wire format as z3 terms, written from the property text only.

fields in ascending field id; scalars LSB-first with no padding, two's complement; f32/f64 as their IEEE word;
enums at bit_length(max) (min 1) bits; a u32 count before str / dynamic arrays; one *byte* presence flag before
optionals; nested structs inline; zero padding only in the last byte.  Shares no code with serde.py/encoding.py
or the templates.  `selftest` replays the repository's own vectors through it on every run.
"""
from __future__ import annotations

import json
import struct as _struct

import z3

from .pysym import SymInt, SymFloat, SymStr, SymBool, W, z3of
from .shapes import Schema, enum_width


def _bv(v, n):
    """n-bit two's-complement image of an int | SymInt."""
    if type(v) is SymInt:
        return z3.Extract(n - 1, 0, v.e)
    if type(v) is SymBool:
        return z3.Extract(n - 1, 0, SymInt.lift(v).e)
    if isinstance(v, z3.BitVecRef):
        if v.size() == n:
            return v
        if v.size() > n:
            return z3.Extract(n - 1, 0, v)
        return z3.ZeroExt(n - v.size(), v)
    return z3.BitVecVal(int(v), n)


def _fbits(v, n):
    if type(v) is SymFloat:
        assert v.nbits == n
        return v.e
    if isinstance(v, tuple):  # ('f32', bits)
        return z3.BitVecVal(v[1], n)
    if isinstance(v, z3.BitVecRef):
        return v
    raw = _struct.pack("<f" if n == 32 else "<d", v)
    return z3.BitVecVal(int.from_bytes(raw, "little"), n)


def segments(schema: Schema, t, v):
    """Wire image of value v of type t as a list of (bitvector, width) in wire order (first = lowest bits)."""
    k = t[0]
    if k in ("u", "i"):
        return [(_bv(v, t[1]), t[1])]
    if k == "f32":
        return [(_fbits(v, 32), 32)]
    if k == "f64":
        return [(_fbits(v, 64), 64)]
    if k == "enum":
        w = enum_width(schema.enum_max(t[1]))
        return [(_bv(v, w), w)]
    if k == "str":
        segs = [(_bv(getattr(v, "announced", len(v)), 32), 32)]
        for c in v:
            segs.append((_bv(c if not isinstance(c, str) else ord(c), 8), 8))
        return segs
    if k == "arr":
        assert len(v) == t[2]
        out = []
        for x in v:
            out += segments(schema, t[1], x)
        return out
    if k == "dyn":
        out = [(_bv(getattr(v, "announced", len(v)), 32), 32)]
        for x in v:
            out += segments(schema, t[1], x)
        return out
    if k == "opt":
        if v is None:
            return [(_bv(0, 8), 8)]
        return [(_bv(1, 8), 8)] + segments(schema, t[1], v)
    if k == "struct":
        out = []
        for fn, _, ft in sorted(schema.struct(t[1]), key=lambda f: f[1]):
            out += segments(schema, ft, v[fn])
        return out
    raise ValueError(t)


def pack(segs):
    """(total_bits, one bit-vector holding the segments LSB-first)."""
    total = sum(w for _, w in segs)
    if total == 0:
        return 0, None
    parts = [e for e, _ in reversed(segs)]
    word = parts[0] if len(parts) == 1 else z3.Concat(*parts)
    return total, word


def canon_bytes(schema: Schema, t, v):
    """Canonical encoding: list of 8-bit z3 terms."""
    total, word = pack(segments(schema, t, v))
    if total == 0:
        return []
    nbytes = (total + 7) // 8
    if nbytes * 8 > total:
        word = z3.ZeroExt(nbytes * 8 - total, word)
    return [z3.simplify(z3.Extract(8 * i + 7, 8 * i, word)) for i in range(nbytes)]


def canon_word64(schema: Schema, t, v):
    """CAN 'layout packing': the same bits as one 64-bit word (fixed-size shapes of at most 64 bits)."""
    total, word = pack(segments(schema, t, v))
    assert 0 < total <= 64
    return z3.simplify(z3.ZeroExt(64 - total, word) if total < 64 else word)


def canon_concrete(schema: Schema, t, v) -> bytes:
    bs = canon_bytes(schema, t, v)
    return bytes(z3.simplify(b).as_long() for b in bs)


# ---- decoding direction for fixed-size types: leaf terms extracted from an arbitrary word
def leaves(schema: Schema, t, path=""):
    """Fixed-size type -> list of (path, kind, width) in wire order; kind in u,i,f32,f64,enum."""
    k = t[0]
    if k in ("u", "i"):
        return [(path, k, t[1])]
    if k == "f32":
        return [(path, "f32", 32)]
    if k == "f64":
        return [(path, "f64", 64)]
    if k == "enum":
        return [(path, "enum", enum_width(schema.enum_max(t[1])))]
    if k == "arr":
        out = []
        for i in range(t[2]):
            out += leaves(schema, t[1], f"{path}[{i}]")
        return out
    if k == "struct":
        out = []
        for fn, _, ft in sorted(schema.struct(t[1]), key=lambda f: f[1]):
            out += leaves(schema, ft, (path + "." if path else "") + fn)
        return out
    raise ValueError("not fixed-size: %r" % (t,))


def decanon_leaves(schema: Schema, t, word, total_bits):
    """For an arbitrary bit-vector `word` of total_bits: [(path, kind, width, raw_bits_term)]."""
    out = []
    pos = 0
    for path, kind, w in leaves(schema, t):
        assert pos + w <= total_bits
        out.append((path, kind, w, z3.Extract(pos + w - 1, pos, word)))
        pos += w
    return out


def value_of_leaf(kind, w, raw, width=W):
    """Typed value (as width-bit term) of a raw leaf: sign-extended for 'i', zero-extended otherwise."""
    if kind == "i":
        return z3.SignExt(width - w, raw) if width > w else raw
    return z3.ZeroExt(width - w, raw) if width > w else raw


# ---- value equality obligations
def eq_value(schema: Schema, t, a, b):
    """z3 Bool: values a and b of type t are equal (floats bit-for-bit); structure mismatch -> False."""
    k = t[0]
    try:
        if k in ("u", "i", "enum"):
            if not _intlike(a) or not _intlike(b):
                return z3.BoolVal(False)
            return z3of(a) == z3of(b)
        if k in ("f32", "f64"):
            n = 32 if k == "f32" else 64
            if not _floatlike(a) or not _floatlike(b):
                return z3.BoolVal(False)
            return _fbits(a, n) == _fbits(b, n)
        if k == "str":
            if not _strlike(a) or not _strlike(b) or len(a) != len(b):
                return z3.BoolVal(False)
            cs = [z3of(_ordc(x)) == z3of(_ordc(y)) for x, y in zip(a, b)]
            return z3.And(*cs) if cs else z3.BoolVal(True)
        if k in ("arr", "dyn"):
            if not isinstance(a, list) or not isinstance(b, list) or len(a) != len(b):
                return z3.BoolVal(False)
            cs = [eq_value(schema, t[1], x, y) for x, y in zip(a, b)]
            return z3.And(*cs) if cs else z3.BoolVal(True)
        if k == "opt":
            if a is None or b is None:
                return z3.BoolVal(a is None and b is None)
            return eq_value(schema, t[1], a, b)
        if k == "struct":
            if not isinstance(a, dict) or not isinstance(b, dict):
                return z3.BoolVal(False)
            fs = schema.struct(t[1])
            if set(a.keys()) != {f for f, _, _ in fs} or set(b.keys()) != set(a.keys()):
                return z3.BoolVal(False)
            cs = [eq_value(schema, ft, a[fn], b[fn]) for fn, _, ft in fs]
            return z3.And(*cs) if cs else z3.BoolVal(True)
    except TypeError:
        return z3.BoolVal(False)
    raise ValueError(t)


def _intlike(x):
    return type(x) in (int, SymInt, bool)


def _floatlike(x):
    return type(x) in (float, SymFloat) or (isinstance(x, tuple) and len(x) == 2)


def _strlike(x):
    return isinstance(x, (str, SymStr))


def _ordc(c):
    return ord(c) if isinstance(c, str) else c


# ---------------------------------------------------------------- self test against the repository's own vectors
def selftest(repo=None):
    """Replay tests/standardized/fcp_tests.json and the byte vectors of tests/test_serde.py through refspec.

    Returns (n_vectors, mismatches[list of str]).  A mismatch is a harness error (exit 2), not a finding."""
    from .fromfcp import schema_from_fcp_text
    from .common import REPO

    repo = repo or REPO
    bad, n = [], 0
    suites = json.load(open(f"{repo}/tests/standardized/fcp_tests.json"))
    for suite in suites:
        text = open(f"{repo}/tests/standardized/{suite['schema']}").read()
        sch = schema_from_fcp_text(text)
        for t in suite["tests"]:
            st = t["datatype"]
            val = {}
            for k, v in t["decoded"].items():
                fn = k.split(":")[1]
                ft = [x for x in sch.struct(st) if x[0] == fn][0][2]
                val[fn] = _parse_std_value(sch, ft, v)
            exp = bytes(int(x, 16) if isinstance(x, str) else x for x in t["encoded"])
            got = canon_concrete(sch, ("struct", st), val)
            n += 1
            if got != exp:
                bad.append(f"{suite['name']}/{t['name']}: refspec {list(got)} != vector {list(exp)}")
    # vectors of tests/test_serde.py (byte images asserted there)
    for sch, val, exp in serde_test_vectors():
        n += 1
        got = canon_concrete(sch, ("struct", sch.top), val)
        if got != bytes(exp):
            bad.append(f"test_serde vector {val}: refspec {list(got)} != {list(exp)}")
    return n, bad


def _parse_std_value(sch, t, v):
    k = t[0]
    if k in ("u", "i"):
        named = {"ULONG_MAX": 2 ** 64 - 1, "LLONG_MAX": 2 ** 63 - 1, "LLONG_MIN": -(2 ** 63)}
        if v in named:
            return named[v]
        return int(v, 0) if isinstance(v, str) else int(v)
    if k in ("f32", "f64"):
        return float(v)
    if k == "enum":
        return dict(sch.enums[t[1]])[v]
    if k == "str":
        return v
    if k in ("arr", "dyn"):
        return [_parse_std_value(sch, t[1], x) for x in v]
    if k == "opt":
        return None if v is None else _parse_std_value(sch, t[1], v)
    raise ValueError(t)


def serde_test_vectors():
    """The concrete (schema, value, bytes) triples asserted by tests/test_serde.py."""
    from .shapes import single

    one = single([("u1", 0, ("u", 8)), ("u2", 1, ("i", 8))])
    eight = single([("u1", 0, ("u", 64)), ("u2", 1, ("i", 64))])
    fl = single([("u1", 0, ("f32",)), ("u2", 1, ("f64",))])
    arr = single([("u1", 0, ("arr", ("u", 8), 4))])
    dyn = single([("u1", 0, ("dyn", ("u", 8)))])
    st = single([("u1", 0, ("str",))])
    opt = single([("u1", 0, ("opt", ("u", 8)))])
    return [
        (one, {"u1": 1, "u2": 2}, [1, 2]),
        (one, {"u1": 255, "u2": -1}, [255, 255]),
        (eight, {"u1": 1, "u2": 2}, [1, 0, 0, 0, 0, 0, 0, 0, 2, 0, 0, 0, 0, 0, 0, 0]),
        (fl, {"u1": 1.0, "u2": 2.0}, [0x00, 0x00, 0x80, 0x3F, 0x00, 0x00, 0x00, 0x00, 0x00, 0x00, 0x00, 0x40]),
        (arr, {"u1": [1, 2, 3, 4]}, [1, 2, 3, 4]),
        (dyn, {"u1": [1, 2, 3, 4]}, [4, 0, 0, 0, 1, 2, 3, 4]),
        (st, {"u1": "hello"}, [5, 0, 0, 0, ord("h"), ord("e"), ord("l"), ord("l"), ord("o")]),
        (opt, {"u1": 255}, [1, 255]),
        (opt, {"u1": None}, [0]),
    ]
