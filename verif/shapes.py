"""Schema shapes: the enumerated (bounded) part of every claim.

A type is a tuple:
  ('u', N) ('i', N) ('f32',) ('f64',) ('enum', name) ('str',) ('arr', T, n) ('dyn', T) ('opt', T) ('struct', name)
A Schema has enums {name: [(enumerator, value), ...]}, an ordered list of structs
[(name, [(field_name, field_id, T), ...])] in *declaration order* (declare-before-use) and bindings.
"""
from __future__ import annotations

import itertools
import random
from dataclasses import dataclass, field


@dataclass
class Schema:
    structs: list
    enums: dict = field(default_factory=dict)
    impls: list = field(default_factory=list)  # [(protocol, struct, name|None, {k: v}, [(signal, {k: v})])]
    top: str = "S"
    extra: str = ""
    hidden: tuple = ()   # names of structs/enums the generator derives itself (rpc envelopes): in the shape, not in the text

    def struct(self, name):
        for n, fs in self.structs:
            if n == name:
                return fs
        raise KeyError(name)

    def enum_max(self, name):
        return max(v for _, v in self.enums[name])

    def text(self) -> str:
        out = ['version: "3"', ""]
        for en, vals in self.enums.items():
            if en in self.hidden:
                continue
            out.append("enum %s {" % en)
            for n, v in vals:
                out.append(f"    {n} = {v},")
            out.append("}")
            out.append("")
        for sn, fs in self.structs:
            if sn in self.hidden:
                continue
            out.append("struct %s {" % sn)
            for fn, fid, t in fs:
                out.append(f"    {fn} @{fid}: {type_text(t)},")
            out.append("}")
            out.append("")
        for proto, st, name, kv, sigs in self.impls:
            hdr = f"impl {proto} for {st}" + (f" as {name}" if name else "") + " {"
            out.append(hdr)
            for k, v in kv.items():
                out.append(f"    {k}: {value_text(v)},")
            for sig, skv in sigs:
                out.append("    signal %s {" % sig)
                for k, v in skv.items():
                    out.append(f"        {k}: {value_text(v)},")
                out.append("    },")
            out.append("}")
            out.append("")
        if self.extra:
            out.append(self.extra)
        return "\n".join(out)

    def key(self) -> str:
        return self.text()

    def describe(self) -> str:
        fs = self.struct(self.top)
        return "{" + ", ".join(f"{n}@{i}:{self.tdesc(t)}" for n, i, t in fs) + "}"

    def tdesc(self, t) -> str:
        k = t[0]
        if k == "struct":
            return "{" + ", ".join(f"{n}@{i}:{self.tdesc(tt)}" for n, i, tt in self.struct(t[1])) + "}"
        if k == "enum":
            return f"enum(max={self.enum_max(t[1])})"
        if k == "arr":
            return f"[{self.tdesc(t[1])},{t[2]}]"
        if k == "dyn":
            return f"[{self.tdesc(t[1])}]"
        if k == "opt":
            return f"Optional[{self.tdesc(t[1])}]"
        return type_text(t)


def value_text(v) -> str:
    if isinstance(v, str):
        return '"' + v + '"'
    if isinstance(v, Ident):
        return v.name
    if isinstance(v, list):
        return "[" + ", ".join(value_text(x) for x in v) + "]"
    return str(v)


@dataclass(frozen=True)
class Ident:
    name: str


def type_text(t) -> str:
    k = t[0]
    if k in ("u", "i"):
        return f"{k}{t[1]}"
    if k in ("f32", "f64", "str"):
        return k
    if k in ("enum", "struct"):
        return t[1]
    if k == "arr":
        return f"[{type_text(t[1])}, {t[2]}]"
    if k == "dyn":
        return f"[{type_text(t[1])}]"
    if k == "opt":
        return f"Optional[{type_text(t[1])}]"
    raise ValueError(t)


def enum_width(m: int) -> int:
    """Minimal bit width of an enum with maximum value m (written from the property text)."""
    return max(1, int(m).bit_length())


def is_fixed(schema: Schema, t) -> bool:
    k = t[0]
    if k in ("str", "dyn", "opt"):
        return False
    if k == "arr":
        return is_fixed(schema, t[1])
    if k == "struct":
        return all(is_fixed(schema, ft) for _, _, ft in schema.struct(t[1]))
    return True


def fixed_bits(schema: Schema, t) -> int:
    k = t[0]
    if k in ("u", "i"):
        return t[1]
    if k == "f32":
        return 32
    if k == "f64":
        return 64
    if k == "enum":
        return enum_width(schema.enum_max(t[1]))
    if k == "arr":
        return t[2] * fixed_bits(schema, t[1])
    if k == "struct":
        return sum(fixed_bits(schema, ft) for _, _, ft in schema.struct(t[1]))
    raise ValueError("not fixed: %r" % (t,))


def dyn_nodes(schema: Schema, t, path=()):
    """Paths of the nodes whose instance needs a length/presence choice (str, dyn, opt), in wire order."""
    k = t[0]
    if k == "str":
        yield path, "str"
    elif k == "dyn":
        yield path, "dyn"
    elif k == "opt":
        yield path, "opt"
    elif k == "arr":
        for i in range(t[2]):
            yield from dyn_nodes(schema, t[1], path + (i,))
    elif k == "struct":
        for fn, _, ft in sorted(schema.struct(t[1]), key=lambda f: f[1]):
            yield from dyn_nodes(schema, ft, path + (fn,))


def has_kind(schema: Schema, t, kinds) -> bool:
    k = t[0]
    if k in kinds:
        return True
    if k in ("arr", "dyn", "opt"):
        return has_kind(schema, t[1], kinds)
    if k == "struct":
        return any(has_kind(schema, ft, kinds) for _, _, ft in schema.struct(t[1]))
    return False


def mk_enum(name: str, m: int):
    """Enum declaration with maximum m: enumerators 0 (if m>0), and m."""
    vals = [(f"{name}_A", 0)] if m > 0 else []
    if m > 1:
        vals.append((f"{name}_B", 1))
    if m % 2 == 0 or m == 5:
        return [(f"{name}_Z", m)] + vals      # the maximum is not always the last enumerator declared
    vals.append((f"{name}_Z", m))
    return vals


def single(fields, enums=None, structs=None, top="S") -> Schema:
    """Schema with top struct S made of fields [(T) ...] with ids in order, names f0.."""
    fs = []
    for i, f in enumerate(fields):
        if isinstance(f, tuple) and len(f) == 3 and isinstance(f[0], str) and isinstance(f[1], int) and isinstance(f[2], tuple):
            fs.append(f)
        else:
            fs.append((f"f{i}", i, f))
    return Schema(structs=list(structs or []) + [(top, fs)], enums=dict(enums or {}), top=top)


# ---------------------------------------------------------------- families
SCALARS_QUICK = [("u", 1), ("u", 3), ("u", 8), ("u", 13), ("u", 64), ("i", 1), ("i", 7), ("i", 16), ("i", 64),
                 ("f32",), ("f64",)]
ENUM_MAXES_QUICK = [1, 5, 255, 256, 2 ** 49, 2 ** 49 + 1, 2 ** 53 - 1, 2 ** 63 - 1]
ENUM_MAXES_THOROUGH = [0, 1, 2, 3, 4, 7, 8, 15, 16, 127, 128, 255, 256, 65535, 65536, 2 ** 31 - 1, 2 ** 49, 2 ** 49 + 1,
                       2 ** 53 - 1, 2 ** 53 + 1, 2 ** 62 - 1, 2 ** 63 - 1, 2 ** 63, 2 ** 64 - 1]


def _with_enum(t_or_max, enums):
    if isinstance(t_or_max, int):
        name = f"E{t_or_max}"
        enums[name] = mk_enum(name, t_or_max)
        return ("enum", name)
    return t_or_max


def codec_family(tier: str, seed: int = 0, include_enums=True):
    """Shapes for the Python codec checks (C01/C02/C16): list of Schema."""
    out = []
    seen = set()

    def add(s: Schema):
        k = s.key()
        if k not in seen:
            seen.add(k)
            out.append(s)

    widths = range(1, 65)
    pads = range(0, 8)
    # (1) every integer width x every bit alignment (a u<pad> field in front); tier quick samples alignments
    for n in widths:
        for pad in pads:
            if tier == "quick" and not (pad in (0, 3) or n in (1, 7, 8, 9, 31, 32, 33, 63, 64)):
                continue
            for kind in ("u", "i"):
                fields = ([("u", pad)] if pad else []) + [(kind, n), ("u", 2)]
                add(single(fields))
    # (2) floats, enums, containers at every alignment
    kinds = [("f32",), ("f64",), ("str",), ("arr", ("u", 3), 3), ("dyn", ("u", 8)), ("opt", ("i", 5)),
             ("dyn", ("u", 3)), ("opt", ("f32",)), ("arr", ("f32",), 2), ("dyn", ("str",)), ("opt", ("str",)),
             ("arr", ("i", 11), 2), ("dyn", ("i", 64)), ("opt", ("dyn", ("u", 5))), ("dyn", ("opt", ("u", 7))),
             ("arr", ("dyn", ("u", 4)), 2), ("arr", ("opt", ("i", 3)), 2), ("arr", ("str",), 2)]
    if include_enums:
        kinds += ENUM_MAXES_THOROUGH if tier == "thorough" else ENUM_MAXES_QUICK
    for k in kinds:
        for pad in pads:
            if tier == "quick" and pad not in (0, 3, 7) and k not in (("f32",), ("f64",), ("str",)):
                continue
            enums = {}
            t = _with_enum(k, enums)
            fields = ([("u", pad)] if pad else []) + [t, ("u", 3)]
            add(single(fields, enums))
    # (3) ordered pairs/triples of representative kinds
    rep = SCALARS_QUICK + [("str",), ("arr", ("u", 3), 3), ("dyn", ("u", 8)), ("opt", ("i", 5))]
    rep_e = rep + ([1, 5, 255, 256] if include_enums else [])
    for a, b in itertools.product(rep_e, rep_e):
        enums = {}
        add(single([_with_enum(a, enums), _with_enum(b, enums)], enums))
    if tier == "thorough":
        small = [("u", 3), ("i", 7), ("f32",), ("str",), ("dyn", ("u", 8)), ("opt", ("i", 5)), 5, ("f64",), ("u", 64)]
        if not include_enums:
            small = [x for x in small if not isinstance(x, int)]
        for a, b, c in itertools.product(small, small, small):
            enums = {}
            add(single([_with_enum(a, enums), _with_enum(b, enums), _with_enum(c, enums)], enums))
    # (4) nesting: structs in structs, in arrays, in optionals, in dynamic arrays
    inner = ("In", [("p", 0, ("u", 5)), ("q", 1, ("i", 11))])
    inner2 = ("In2", [("x", 0, ("f32",)), ("y", 1, ("struct", "In")), ("z", 2, ("str",))])
    for t in [("struct", "In"), ("arr", ("struct", "In"), 2), ("opt", ("struct", "In")), ("dyn", ("struct", "In")),
              ("struct", "In2"), ("dyn", ("struct", "In2")), ("opt", ("arr", ("struct", "In"), 2))]:
        for pad in (0, 3) if tier == "quick" else pads:
            fields = ([("u", pad)] if pad else []) + [t, ("i", 4)]
            add(single(fields, structs=[inner, inner2]))
    # (5) declaration order != field-id order (ids fix the wire order)
    add(single([("a", 2, ("u", 3)), ("b", 0, ("i", 13)), ("c", 1, ("u", 8))]))
    add(single([("a", 1, ("str",)), ("b", 0, ("u", 5))]))
    add(single([("a", 9007199254740993, ("u", 3)), ("b", 9007199254740992, ("i", 5)), ("c", 2 ** 31, ("u", 8))]))
    add(single([("a", 5, ("f32",)), ("b", 3, ("opt", ("u", 8))), ("c", 4, ("u", 1))]))
    add(Schema(structs=[("In", [("q", 1, ("i", 11)), ("p", 0, ("u", 5))]),
                        ("S", [("y", 1, ("u", 2)), ("x", 0, ("struct", "In"))])]))
    # ... also for a struct that is reached through every container kind (element of an array, of a dynamic array, of an
    # optional, nested twice): each path to a struct must sort its fields
    rev = ("Rv", [("q", 1, ("i", 11)), ("r", 2, ("u", 3)), ("p", 0, ("u", 5))])
    for t in [("arr", ("struct", "Rv"), 2), ("dyn", ("struct", "Rv")), ("opt", ("struct", "Rv")),
              ("arr", ("opt", ("struct", "Rv")), 2), ("dyn", ("arr", ("struct", "Rv"), 2))]:
        add(single([("u", 3), t, ("i", 4)], structs=[rev]))
    if tier == "thorough":
        rng = random.Random(seed)
        for _ in range(150):
            add(random_schema(rng, include_enums))
    return out


def random_type(rng, depth, enums, structs, include_enums=True, fixed_only=False):
    ks = ["u", "i", "u", "i", "f32", "f64"]
    if include_enums:
        ks.append("enum")
    if depth > 0:
        ks += ["arr", "struct"] + ([] if fixed_only else ["str", "dyn", "opt"])
    k = rng.choice(ks)
    if k in ("u", "i"):
        return (k, rng.choice([1, 2, 3, 5, 7, 8, 9, 13, 16, 24, 31, 32, 33, 48, 63, 64]))
    if k in ("f32", "f64", "str"):
        return (k,)
    if k == "enum":
        m = rng.choice([1, 2, 3, 4, 6, 7, 8, 100, 255, 256, 1000])
        return _with_enum(m, enums)
    if k == "arr":
        return ("arr", random_type(rng, depth - 1, enums, structs, include_enums, fixed_only), rng.choice([1, 2, 3]))
    if k in ("dyn", "opt"):
        return (k, random_type(rng, depth - 1, enums, structs, include_enums, fixed_only))
    name = f"N{len(structs)}"
    n = rng.choice([1, 2, 3])
    ids = rng.sample(range(0, 6), n)
    fs = [(f"g{i}", ids[i], random_type(rng, depth - 1, enums, structs, include_enums, fixed_only)) for i in range(n)]
    structs.append((name, fs))
    return ("struct", name)


def random_schema(rng, include_enums=True, fixed_only=False, depth=2, maxfields=4) -> Schema:
    enums, structs = {}, []
    n = rng.randint(1, maxfields)
    ids = rng.sample(range(0, 8), n)
    fs = [(f"f{i}", ids[i], random_type(rng, depth, enums, structs, include_enums, fixed_only)) for i in range(n)]
    return Schema(structs=structs + [("S", fs)], enums=enums)


def decoy_of(schema: Schema) -> Schema:
    """Same struct / enum / field names, different widths and enum maxima: used to prime process-wide state
    (caches keyed by names) before the schema under test is exercised."""
    def ty(t):
        k = t[0]
        if k in ("u", "i"):
            return (k, t[1] // 2 if t[1] > 1 else 2)
        if k in ("arr",):
            return ("arr", ty(t[1]), t[2])
        if k in ("dyn", "opt"):
            return (k, ty(t[1]))
        return t
    enums = {}
    for en, vals in schema.enums.items():
        m = max(v for _, v in vals)
        m2 = 1 if m > 1 else 5
        enums[en] = [(n, (m2 if v == m else min(v, m2))) for n, v in vals]
        # keep values distinct
        seen, out = set(), []
        for n, v in enums[en]:
            while v in seen:
                v += 1
            seen.add(v)
            out.append((n, v))
        enums[en] = out
    structs = [(sn, [(fn, fid, ty(t)) for fn, fid, t in reversed(fs)]) for sn, fs in schema.structs]
    return Schema(structs=structs, enums=enums, impls=schema.impls, top=schema.top)


def zero_value(schema: Schema, t):
    k = t[0]
    if k in ("u", "i", "enum"):
        return 0 if k != "enum" else min(v for _, v in schema.enums[t[1]])
    if k in ("f32", "f64"):
        return 0.0
    if k == "str":
        return "a"
    if k == "arr":
        return [zero_value(schema, t[1]) for _ in range(t[2])]
    if k == "dyn":
        return [zero_value(schema, t[1])]
    if k == "opt":
        return zero_value(schema, t[1])
    if k == "struct":
        return {fn: zero_value(schema, ft) for fn, _, ft in schema.struct(t[1])}
    raise ValueError(t)
