"""llsym - interpreter for clang-14 textual LLVM IR with symbolic *data* (z3 bit-vectors / IEEE floats),
concrete control flow and addresses, byte-granular little-endian memory, forking on symbolic branches through
pysym.Engine.  x86-64 SysV data layout.  Undefined behaviour met on the way (shift >= width, violated nsw/nuw,
reads outside any allocation) is recorded with its condition in Machine.ub."""
import re, struct, z3
from .pysym import Engine, EngineLimit

# ----------------------------------------------------------------------------- types
class T:  # type node
    def __init__(s, k, **kw): s.k = k; s.__dict__.update(kw)
    def __repr__(s): return s.k + str({k: v for k, v in s.__dict__.items() if k != 'k'})

class Mod:
    def __init__(s):
        s.named = {}; s.funcs = {}; s.globals = {}; s.decls = set()

TOK = re.compile(r'''\s*(?:(c"(?:[^"\\]|\\[0-9A-Fa-f]{2}|\\\\)*")|("(?:[^"])*")|([%@](?:"[^"]*"|[-\w.$]+))|(\.\.\.)|(<\{|\}>)|([-+]?0x[KLMHR]?[0-9A-Fa-f]+)|([-+]?\d+\.\d*(?:[eE][-+]?\d+)?)|([-+]?\d+)|([A-Za-z_][\w.]*)|(.))''')

def lex(s):
    out = []; i = 0
    while i < len(s):
        m = TOK.match(s, i)
        if not m: break
        i = m.end()
        t = m.group(m.lastindex)
        if t == ';': break
        out.append(t)
    return out

class P:
    def __init__(s, toks, mod): s.t = toks; s.i = 0; s.mod = mod
    def peek(s, k=0): return s.t[s.i + k] if s.i + k < len(s.t) else None
    def next(s): s.i += 1; return s.t[s.i - 1]
    def eat(s, x):
        if s.peek() == x: s.i += 1; return True
        return False
    def expect(s, x):
        if s.next() != x: raise SyntaxError(f'expected {x} got {s.t[s.i-1]} in {" ".join(s.t)}')
    def type(s):
        t = s.next()
        if t == 'void': ty = T('void')
        elif re.fullmatch(r'i\d+', t): ty = T('int', n=int(t[1:]))
        elif t in ('float', 'double'): ty = T('fp', n=32 if t == 'float' else 64)
        elif t == 'ptr': ty = T('ptr', to=None)
        elif t == 'metadata': ty = T('md')
        elif t == 'label': ty = T('label')
        elif t == '[':
            n = int(s.next()); s.expect('x'); e = s.type(); s.expect(']'); ty = T('arr', n=n, e=e)
        elif t in ('{', '<{'):
            es = []
            close = '}' if t == '{' else '}>'
            if not s.eat(close):
                while True:
                    es.append(s.type())
                    if s.eat(close): break
                    s.expect(',')
            ty = T('struct', es=es, packed=(t == '<{'))
        elif t == '<':
            n = int(s.next()); s.expect('x'); e = s.type(); s.expect('>'); ty = T('vec', n=n, e=e)
        elif t[0] == '%': ty = T('named', name=t)
        elif t == 'opaque': ty = T('opaque')
        else: raise SyntaxError('type? ' + t + ' in ' + ' '.join(s.t))
        while True:
            if s.eat('*'): ty = T('ptr', to=ty)
            elif s.peek() == '(' and ty.k != 'md':  # function type
                s.next(); depth = 1
                while depth:
                    x = s.next()
                    depth += (x == '(') - (x == ')')
                ty = T('fn', ret=ty)
            elif s.peek() == 'addrspace':
                s.next(); s.expect('('); s.next(); s.expect(')')
            else: break
        return ty

def resolve(mod, ty):
    while ty.k == 'named': ty = mod.named[ty.name]
    return ty

def sizeof(mod, ty):
    ty = resolve(mod, ty)
    if ty.k == 'int': return max(1, (ty.n + 7) // 8) if ty.n <= 64 else 16
    if ty.k == 'fp': return ty.n // 8
    if ty.k in ('ptr', 'fn'): return 8
    if ty.k in ('arr', 'vec'): return ty.n * sizeof(mod, ty.e)
    if ty.k == 'struct': return layout(mod, ty)[1]
    raise EngineLimit('sizeof ' + repr(ty))

def alignof(mod, ty):
    ty = resolve(mod, ty)
    if ty.k == 'int': return min(8, 1 << max(0, (sizeof(mod, ty) - 1).bit_length()))
    if ty.k == 'fp': return ty.n // 8
    if ty.k in ('ptr', 'fn'): return 8
    if ty.k == 'arr': return alignof(mod, ty.e)
    if ty.k == 'vec': return min(16, sizeof(mod, ty))
    if ty.k == 'struct': return 1 if ty.packed else max([alignof(mod, e) for e in ty.es] or [1])
    raise EngineLimit('alignof ' + repr(ty))

def layout(mod, ty):
    off = 0; offs = []
    for e in ty.es:
        a = 1 if ty.packed else alignof(mod, e)
        off = (off + a - 1) // a * a
        offs.append(off); off += sizeof(mod, e)
    a = 1 if ty.packed else max([alignof(mod, e) for e in ty.es] or [1])
    return offs, (off + a - 1) // a * a

# ----------------------------------------------------------------------------- parsing module
ATTR_WORDS = set('''dso_local local_unnamed_addr unnamed_addr internal private linkonce_odr weak_odr external hidden
 noundef nonnull nocapture readonly writeonly readnone zeroext signext noalias inbounds nuw nsw exact returned immarg
 volatile tail musttail notail fast nnan ninf nsz arcp contract afn reassoc comdat constant global weak common
 available_externally align dereferenceable dereferenceable_or_null sret byval nofree nosync willreturn mustprogress inreg nest swiftself nonnull noalias preallocated inalloca elementtype fastcc coldcc ccc noinline alwaysinline cold hot protected default'''.split())

def parse_module(text, mod=None):
    mod = mod or Mod()
    lines = text.split('\n'); i = 0
    while i < len(lines):
        ln = lines[i]; i += 1
        m = re.match(r'(%(?:"[^"]*"|[-\w.$]+)) = type (.*)', ln)
        if m:
            mod.named[m.group(1)] = P(lex(m.group(2)), mod).type(); continue
        if ln.startswith(('@llvm.global_ctors', '@llvm.global_dtors', '@llvm.used', '@llvm.compiler.used')):
            continue        # static initialisers (std::ios_base::Init of <iostream>) are not run
        if ln.startswith('@'):
            name = re.match(r'(@(?:"[^"]*"|[-\w.$]+))', ln).group(1)
            mod.globals[name] = ln; continue
        if ln.startswith('declare'):
            mod.decls.add(re.search(r'(@(?:"[^"]*"|[-\w.$]+))\(', ln).group(1)); continue
        if ln.startswith('define'):
            name = re.search(r'(@(?:"[^"]*"|[-\w.$]+))\(', ln).group(1)
            body = []
            while lines[i] != '}':
                body.append(lines[i]); i += 1
            mod.funcs[name] = parse_func(mod, name, ln, body)
    return mod

class Func:
    pass

def parse_func(mod, name, header, body):
    f = Func(); f.name = name
    toks = lex(header)
    p = P(toks, mod); p.expect('define')
    while True:
        t = p.peek()
        if t in ATTR_WORDS:
            p.next()
            if t in ('dereferenceable', 'dereferenceable_or_null', 'align') and p.peek() == '(':
                p.next(); p.next(); p.next()
            elif t == 'align' and p.peek().isdigit():
                p.next()
            continue
        break
    f.ret = p.type()
    assert p.next() == name
    p.expect('('); f.params = []
    n = 0
    while not p.eat(')'):
        if p.peek() == '...':
            p.next(); f.varargs = True; continue
        ty = p.type()
        pname = None
        while p.peek() not in (',', ')'):
            t = p.next()
            if t[0] == '%': pname = t
            elif t == '(':
                while p.next() != ')': pass
        f.params.append((ty, pname or f'%{n}')); n += 1
        p.eat(',')
    f.blocks = {}; f.order = []
    cur = f'%{n}' if not any(re.match(r'^[\w.$"-]+:', l) for l in body[:1]) else None
    label = cur
    insts = []
    for ln in body:
        m = re.match(r'^("[^"]*"|[-\w.$]+):', ln)
        if m:
            if label is not None or insts:
                f.blocks[label] = insts; f.order.append(label)
            label = '%' + m.group(1); insts = []; continue
        ln = ln.strip()
        if not ln: continue
        if ln.startswith(('to label', 'cleanup', 'catch ', 'filter ')):
            insts[-1] = insts[-1] + lex(ln); continue
        if insts and insts[-1] and 'switch' in insts[-1][:3] and ']' not in insts[-1]:
            insts[-1] = insts[-1] + lex(ln); continue
        insts.append(lex(ln))
    f.blocks[label] = insts; f.order.append(label)
    return f

# ----------------------------------------------------------------------------- machine
class CxxThrow(Exception):
    pass

def mask(n): return (1 << n) - 1

class Machine:
    def __init__(s, mod):
        s.mod = mod; s.mem = {}; s.brk = 0x10000; s.gaddr = {}; s.natives = {}; s.steps = 0; s.allocs = []; s.undef_reads = 0
        s.fn_by_addr = {}; s.ub = []; s.overrides = {}; s.step_budget = 2_000_000
        for i, fname in enumerate(list(mod.funcs) + sorted(mod.decls)):
            s.gaddr[fname] = 0x1000 + 16 * i; s.fn_by_addr[0x1000 + 16 * i] = fname
        for g in mod.globals: s._alloc_global(g)
        for g in mod.globals: s._init_global(g)

    def alloc(s, size, align=16):
        s.brk = (s.brk + align - 1) // align * align
        a = s.brk; s.brk += max(size, 1)
        s.allocs.append((a, max(size, 1)))
        return a

    def readbyte(s, a):
        if a not in s.mem:
            if not s.mapped(a): raise EngineLimit(f'read of unmapped byte {hex(a)}')
            _fresh[0] += 1
            s.mem[a] = z3.BitVec(f'undef!{_fresh[0]}', 8); s.undef_reads += 1
        return s.mem[a]

    def mapped(s, a):
        return any(b <= a < b + n for b, n in s.allocs)

    def _gparse(s, g):
        ln = s.mod.globals[g]
        toks = lex(ln.split(' = ', 1)[1])
        p = P(toks, s.mod)
        while p.peek() in ATTR_WORDS or p.peek() in ('thread_local',): p.next()
        ty = p.type()
        return ty, p

    def _alloc_global(s, g):
        ty, _ = s._gparse(g)
        s.gaddr[g] = s.alloc(sizeof(s.mod, ty), 16)

    def _init_global(s, g):
        ty, p = s._gparse(g)
        if p.peek() in (None, ','):  # external
            return
        v = s.const(p, ty)
        s.store(s.gaddr[g], ty, v)

    # ---- constants / operands
    def const(s, p, ty, env=None):
        rty = resolve(s.mod, ty)
        t = p.peek()
        if t[0] == '%':
            p.next(); return env[t]
        if t[0] == '@':
            p.next(); return s.gaddr[t]
        if t in ('zeroinitializer', 'undef', 'poison', 'null'):
            p.next(); return s.zero(rty)
        if t in ('true', 'false'):
            p.next(); return int(t == 'true')
        if rty.k == 'int' and t in ('trunc', 'zext', 'sext', 'ptrtoint', 'bitcast'):
            p.next(); p.expect('('); sty = p.type(); v = s.const(p, sty, env); p.expect('to'); p.type(); p.expect(')')
            if t == 'sext': v = sext(v, resolve(s.mod, sty).n)
            return v & mask(rty.n)
        if rty.k == 'int' and t in ('sub', 'add'):
            p.next(); p.eat('nuw'); p.eat('nsw'); p.expect('(')
            aty = p.type(); a = s.const(p, aty, env); p.expect(','); bty = p.type(); b = s.const(p, bty, env); p.expect(')')
            return ((a - b) if t == 'sub' else (a + b)) & mask(rty.n)
        if rty.k == 'int':
            p.next(); return int(t) & mask(rty.n)
        if rty.k == 'fp':
            p.next()
            if t.startswith('0x'):
                d = struct.unpack('<d', struct.pack('<Q', int(t, 16)))[0]
            else:
                d = float(t)
            if rty.n == 32:
                return struct.unpack('<I', struct.pack('<f', d))[0] | FPTAG32
            return struct.unpack('<Q', struct.pack('<d', d))[0] | FPTAG64
        if rty.k == 'arr':
            if t.startswith('c"'):
                p.next(); raw = t[2:-1]; out = []; i = 0
                while i < len(raw):
                    if raw[i] == '\\': out.append(int(raw[i+1:i+3], 16)); i += 3
                    else: out.append(ord(raw[i])); i += 1
                return out
            p.expect('['); out = []
            while not p.eat(']'):
                ety = p.type(); out.append(s.const(p, ety, env)); p.eat(',')
            return out
        if rty.k == 'vec':
            p.expect('<'); out = []
            while not p.eat('>'):
                ety = p.type(); out.append(s.const(p, ety, env)); p.eat(',')
            return out
        if rty.k == 'struct':
            close = '}' if p.next() == '{' else '}>'
            out = []
            while not p.eat(close):
                ety = p.type(); out.append(s.const(p, ety, env)); p.eat(',')
            return out
        if t == 'getelementptr':
            p.next(); p.eat('inbounds'); p.expect('(')
            bty = p.type(); p.expect(','); pty = p.type(); base = s.const(p, pty, env)
            idx = []
            while p.eat(','):
                p.eat('inrange'); ity = p.type(); idx.append(s.const(p, ity, env))
            p.expect(')')
            return s.gep(bty, base, idx)
        if t in ('bitcast', 'inttoptr', 'ptrtoint', 'addrspacecast'):
            p.next(); p.expect('('); sty = p.type(); v = s.const(p, sty, env); p.expect('to'); p.type(); p.expect(')')
            return v
        raise EngineLimit('const? ' + t + ' in: ' + ' '.join(p.t)[:300])

    def zero(s, ty):
        ty = resolve(s.mod, ty)
        if ty.k == 'fp': return FPTAG32 if ty.n == 32 else FPTAG64
        if ty.k in ('int', 'ptr', 'fn'): return 0
        if ty.k in ('arr', 'vec'): return [s.zero(ty.e) for _ in range(ty.n)]
        if ty.k == 'struct': return [s.zero(e) for e in ty.es]
        raise EngineLimit('zero ' + repr(ty))

    def gep(s, bty, base, idx):
        idx = [small_int(i) for i in idx]       # a symbolic index forks over 0..64
        if not isinstance(base, int): raise EngineLimit('symbolic GEP base')
        a = base + sext(idx[0], 64) * sizeof(s.mod, bty)
        ty = resolve(s.mod, bty)
        for i in idx[1:]:
            if ty.k == 'struct':
                a += layout(s.mod, ty)[0][i]; ty = resolve(s.mod, ty.es[i])
            else:
                a += sext(i, 64) * sizeof(s.mod, ty.e); ty = resolve(s.mod, ty.e)
        return a & mask(64)

    # ---- memory (little endian, byte granular)
    def store(s, a, ty, v):
        ty = resolve(s.mod, ty)
        if ty.k in ('arr', 'vec'):
            es = sizeof(s.mod, ty.e)
            for i, x in enumerate(v): s.store(a + i * es, ty.e, x)
        elif ty.k == 'struct':
            offs, _ = layout(s.mod, ty)
            for o, e, x in zip(offs, ty.es, v): s.store(a + o, e, x)
        else:
            n = sizeof(s.mod, ty)
            v = fp_bits(v)
            for i in range(n):
                if isinstance(v, int): s.mem[a + i] = (v >> (8 * i)) & 255
                else: s.mem[a + i] = z3.simplify(z3.Extract(8 * i + 7, 8 * i, v))

    def load(s, a, ty):
        ty = resolve(s.mod, ty)
        if ty.k in ('arr', 'vec'):
            es = sizeof(s.mod, ty.e); return [s.load(a + i * es, ty.e) for i in range(ty.n)]
        if ty.k == 'struct':
            offs, _ = layout(s.mod, ty); return [s.load(a + o, e) for o, e in zip(offs, ty.es)]
        n = sizeof(s.mod, ty)
        bs = []
        for i in range(n):
            if a + i not in s.mem:
                if not s.mapped(a + i): raise EngineLimit(f'load of unmapped byte {hex(a+i)}')
                _fresh[0] += 1
                s.mem[a + i] = z3.BitVec(f'undef!{_fresh[0]}', 8); s.undef_reads += 1
            bs.append(s.mem[a + i])
        if all(isinstance(b, int) for b in bs):
            v = sum(b << (8 * i) for i, b in enumerate(bs))
        else:
            v = z3.simplify(z3.Concat(*[b if not isinstance(b, int) else z3.BitVecVal(b, 8) for b in reversed(bs)])) if n > 1 else bs[0]
        bits = ty.n if ty.k in ('int', 'fp') else 64
        if bits < 8 * n:
            v = v & mask(bits) if isinstance(v, int) else z3.simplify(z3.Extract(bits - 1, 0, v))
        if ty.k == 'fp': v = as_fp(v, ty.n)
        return v

FPTAG32 = 1 << 100
FPTAG64 = 1 << 101

class FP:  # symbolic float carried as bit pattern (BV) of width n
    def __init__(s, bv, n): s.bv, s.n = bv, n

def fp_bits(v):
    if isinstance(v, FP): return v.bv
    if isinstance(v, int) and v & (FPTAG32 | FPTAG64): return v & mask(64)
    return v

def as_fp(v, n):
    if isinstance(v, int): return (v & mask(n)) | (FPTAG32 if n == 32 else FPTAG64)
    return FP(v, n)

def sext(v, n):
    v &= mask(n)
    return v - (1 << n) if v >> (n - 1) else v

def bv(v, n):
    return z3.BitVecVal(v & mask(n), n) if isinstance(v, int) else v

def fpsort(n): return z3.Float32() if n == 32 else z3.Float64()

def to_z3fp(v, n):
    return z3.fpBVToFP(bv(fp_bits(v), n), fpsort(n))

_fresh = [0]
_fpcache = {}
def from_z3fp(e, n):
    # IEEE bit pattern of an FP term: fresh BV r with to_fp(r) = e (SMT-LIB '=' on floats: all NaNs equal,
    # so a NaN result may carry any NaN payload -- exactly what hardware leaves unspecified).
    e = z3.simplify(e)
    if isinstance(e, z3.FPNumRef):
        b = z3.simplify(z3.fpToIEEEBV(e))
        if z3.is_bv_value(b):
            return as_fp(b.as_long(), n)
    # one bit-pattern variable per (structurally equal) FP term: the same computation yields the same bits,
    # also across separate symbolic runs whose results are compared with each other
    key = e.get_id()
    if key not in _fpcache:
        _fresh[0] += 1
        _fpcache[key] = (z3.BitVec(f'fpbits!{_fresh[0]}', n), e)
    r = _fpcache[key][0]
    Engine.cur._add_pc(z3.fpBVToFP(r, fpsort(n)) == e)
    return FP(r, n)

class Frame:
    pass

def run(m, fname, args, depth=0):
    f = m.mod.funcs[fname]
    env = {}
    for (ty, pn), a in zip(f.params, args): env[pn] = a
    blk = f.order[0]; prev = None
    allocas = []
    while True:
        insts = f.blocks[blk]
        # phis first, evaluated simultaneously
        pend = {}
        k = 0
        while k < len(insts) and len(insts[k]) > 2 and insts[k][2] == 'phi':
            t = insts[k]; p = P(t, m.mod); dst = p.next(); p.expect('='); p.expect('phi')
            ty = p.type()
            val = None
            while True:
                p.expect('['); start = p.i
                depth_ = 0
                while not (p.peek() == ',' and depth_ == 0):
                    x_ = p.next()
                    depth_ += (x_ in ('{', '[', '<', '(', '<{')) - (x_ in ('}', ']', '>', ')', '}>'))
                end = p.i; p.expect(','); lb = p.next(); p.expect(']')
                if lb == prev: val = m.const(P(t[start:end], m.mod), ty, env)
                if not p.eat(','): break
            pend[dst] = val; k += 1
        env.update(pend)
        for t in insts[k:]:
            m.steps += 1
            if m.steps > m.step_budget: raise EngineLimit('step budget')
            p = P(t, m.mod)
            dst = None
            if p.peek(1) == '=': dst = p.next(); p.next()
            op = p.next()
            if op == 'ret':
                ty = p.type()
                return None if ty.k == 'void' else m.const(p, ty, env)
            if op == 'br':
                if p.eat('label'):
                    prev, blk = blk, p.next(); break
                p.type(); c = m.const(p, T('int', n=1), env); p.expect(','); p.expect('label'); a = p.next(); p.expect(','); p.expect('label'); b = p.next()
                if not isinstance(c, int):
                    c = 1 if Engine.cur.branch(c == 1) else 0
                prev, blk = blk, (a if c else b); break
            if op == 'switch':
                ty = p.type(); v = m.const(p, ty, env); p.expect(','); p.expect('label'); default = p.next(); p.expect('[')
                target = default
                cases = []
                while not p.eat(']'):
                    cty = p.type(); cv = m.const(p, cty, env); p.expect(','); p.expect('label'); lb = p.next()
                    cases.append((cv, lb))
                if isinstance(v, int):
                    for cv, lb in cases:
                        if cv == v: target = lb
                else:   # symbolic scrutinee: one fork per case value, in order
                    for cv, lb in cases:
                        if Engine.cur.branch(v == cv):
                            target = lb; break
                prev, blk = blk, target; break
            if op == 'unreachable':
                raise EngineLimit('reached unreachable')
            env_set = lambda v: env.__setitem__(dst, v)
            if op == 'alloca':
                ty = p.type(); env[dst] = m.alloc(sizeof(m.mod, ty), 16); continue
            if op == 'fence':
                continue        # single thread of execution: ordering only
            if op == 'atomicrmw':   # single thread: read-modify-write in one step
                p.eat('volatile'); rop = p.next(); pty = p.type(); a = m.const(p, pty, env); p.expect(','); ty = p.type(); v = m.const(p, ty, env)
                if not isinstance(a, int): raise EngineLimit('symbolic address')
                n = resolve(m.mod, ty).n; oldv = m.load(a, ty)
                if rop == 'xchg': nv = v
                elif rop in ('add', 'sub', 'and', 'or', 'xor'): nv = binop(m, rop, n, oldv, v, ())
                else: raise EngineLimit('atomicrmw ' + rop)
                m.store(a, ty, nv); env[dst] = oldv; continue
            if op == 'load':
                p.eat('atomic'); p.eat('volatile'); ty = p.type(); p.expect(','); pty = p.type(); a = m.const(p, pty, env)
                if not isinstance(a, int): raise EngineLimit('symbolic address')
                env[dst] = m.load(a, ty); continue
            if op == 'store':
                p.eat('atomic'); p.eat('volatile'); ty = p.type(); v = m.const(p, ty, env); p.expect(','); pty = p.type(); a = m.const(p, pty, env)
                if not isinstance(a, int): raise EngineLimit('symbolic address')
                m.store(a, ty, v); continue
            if op == 'getelementptr':
                p.eat('inbounds'); bty = p.type(); p.expect(','); pty = p.type(); base = m.const(p, pty, env); idx = []
                while p.eat(','):
                    ity = p.type(); idx.append(m.const(p, ity, env))
                env[dst] = m.gep(bty, base, idx); continue
            if op in ('bitcast', 'inttoptr', 'ptrtoint', 'zext', 'sext', 'trunc', 'fptoui', 'fptosi', 'uitofp', 'sitofp', 'fpext', 'fptrunc'):
                sty = p.type(); v = m.const(p, sty, env); p.expect('to'); dty = p.type()
                env[dst] = cast(m, op, resolve(m.mod, sty), v, resolve(m.mod, dty)); continue
            if op in BINOPS:
                flags = []
                while p.peek() in ('nuw', 'nsw', 'exact'): flags.append(p.next())
                ty = p.type(); a = m.const(p, ty, env); p.expect(','); b = m.const(p, ty, env)
                env[dst] = binop(m, op, resolve(m.mod, ty).n, a, b, flags); continue
            if op in ('fadd', 'fsub', 'fmul', 'fdiv', 'fneg'):
                while p.peek() in ATTR_WORDS: p.next()
                ty = p.type(); a = m.const(p, ty, env)
                b = None
                if op != 'fneg': p.expect(','); b = m.const(p, ty, env)
                env[dst] = fpop(op, ty.n, a, b); continue
            if op == 'icmp':
                pred = p.next(); ty = p.type(); a = m.const(p, ty, env); p.expect(','); b = m.const(p, ty, env)
                n = resolve(m.mod, ty); n = n.n if n.k == 'int' else 64
                env[dst] = icmp(pred, n, a, b); continue
            if op == 'fcmp':
                while p.peek() in ATTR_WORDS: p.next()
                pred = p.next(); ty = p.type(); a = m.const(p, ty, env); p.expect(','); b = m.const(p, ty, env)
                env[dst] = fcmp(pred, ty.n, a, b); continue
            if op == 'select':
                p.type(); c = m.const(p, T('int', n=1), env); p.expect(','); ty = p.type(); a = m.const(p, ty, env); p.expect(','); p.type(); b = m.const(p, ty, env)
                if isinstance(c, int): env[dst] = a if c else b
                else:
                    rty = resolve(m.mod, ty); n = rty.n if rty.k in ('int', 'fp') else 64
                    r = z3.simplify(z3.If(c == 1, bv(fp_bits(a), n), bv(fp_bits(b), n)))
                    env[dst] = FP(r, n) if rty.k == 'fp' else (r.as_long() if z3.is_bv_value(r) else r)
                continue
            if op == 'insertvalue':
                aty = p.type(); agg = m.const(p, aty, env); p.expect(','); ety = p.type(); v = m.const(p, ety, env); p.expect(','); i = int(p.next())
                agg = list(agg); agg[i] = v; env[dst] = agg; continue
            if op == 'extractelement':
                vty = p.type(); vec = m.const(p, vty, env); p.expect(','); ity = p.type(); i = m.const(p, ity, env)
                if not isinstance(i, int): raise EngineLimit('symbolic vector index')
                env[dst] = vec[i]; continue
            if op == 'insertelement':
                vty = p.type(); vec = m.const(p, vty, env); p.expect(','); ety = p.type(); v = m.const(p, ety, env); p.expect(','); ity = p.type(); i = m.const(p, ity, env)
                if not isinstance(i, int): raise EngineLimit('symbolic vector index')
                vec = list(vec); vec[i] = v; env[dst] = vec; continue
            if op == 'shufflevector':
                vty = p.type(); a = m.const(p, vty, env); p.expect(','); p.type(); b = m.const(p, vty, env); p.expect(','); mty = p.type()
                mask_ = m.const(p, mty, env); both = list(a) + list(b)
                env[dst] = [both[i] if isinstance(i, int) and i < len(both) else 0 for i in mask_]; continue
            if op == 'freeze':
                ty = p.type(); env[dst] = m.const(p, ty, env); continue
            if op == 'extractvalue':
                aty = p.type(); agg = m.const(p, aty, env); p.expect(','); i = int(p.next()); env[dst] = agg[i]; continue
            if op in ('call', 'invoke', 'tail', 'musttail', 'notail'):
                if op in ('tail', 'musttail', 'notail'): p.expect('call')
                while p.peek() in ATTR_WORDS or p.peek() == 'fastcc':
                    t0 = p.next()
                    if t0 in ('dereferenceable', 'dereferenceable_or_null', 'align') and p.peek() == '(':
                        p.next(); p.next(); p.next()
                    elif t0 == 'align' and p.peek().isdigit():
                        p.next()
                rty = p.type()
                callee = p.next()
                if callee[0] == '%': callee = m.fn_by_addr[env[callee]]
                p.expect('('); args = []
                while not p.eat(')'):
                    aty = p.type()
                    while p.peek() in ATTR_WORDS:
                        t0 = p.next()
                        if p.peek() == '(':   # attribute with an argument: dereferenceable(8), sret(%T), byval(%T), align(8)
                            depth_ = 0
                            while True:
                                x_ = p.next()
                                depth_ += (x_ == '(') - (x_ == ')')
                                if depth_ == 0: break
                        elif t0 == 'align': p.next()
                    if aty.k == 'md':
                        p.next(); p.next(); p.eat(','); args.append(None); continue
                    args.append(m.const(p, aty, env)); p.eat(',')
                r = call(m, callee, args, depth)
                if dst: env[dst] = r
                if op == 'invoke':
                    while p.peek() != 'to': p.next()
                    p.next(); p.expect('label'); prev, blk = blk, p.next(); break
                continue
            raise EngineLimit('opcode ' + op + ' :: ' + ' '.join(t))
        else:
            raise EngineLimit('fell off block')

BINOPS = {'add', 'sub', 'mul', 'and', 'or', 'xor', 'shl', 'lshr', 'ashr', 'udiv', 'sdiv', 'urem', 'srem'}

def binop(m, op, n, a, b, flags):
    if isinstance(a, int) and isinstance(b, int):
        if op in ('shl', 'lshr', 'ashr') and b >= n:
            m.ub.append(f'{op} by {b} >= width {n}'); return 0
        r = {'add': lambda: a + b, 'sub': lambda: a - b, 'mul': lambda: a * b, 'and': lambda: a & b, 'or': lambda: a | b,
             'xor': lambda: a ^ b, 'shl': lambda: a << b, 'lshr': lambda: a >> b, 'ashr': lambda: sext(a, n) >> b,
             'udiv': lambda: a // b, 'urem': lambda: a % b,
             'sdiv': lambda: int(sext(a, n) / sext(b, n)), 'srem': lambda: sext(a, n) - sext(b, n) * int(sext(a, n) / sext(b, n))}[op]()
        return r & mask(n)
    A, B = bv(a, n), bv(b, n)
    if op in ('shl', 'lshr', 'ashr') and not isinstance(b, int):
        m.ub.append(('shift-amount', z3.UGE(B, n)))
    r = {'add': lambda: A + B, 'sub': lambda: A - B, 'mul': lambda: A * B, 'and': lambda: A & B, 'or': lambda: A | B,
         'xor': lambda: A ^ B, 'shl': lambda: A << B, 'lshr': lambda: z3.LShR(A, B), 'ashr': lambda: A >> B,
         'udiv': lambda: z3.UDiv(A, B), 'urem': lambda: z3.URem(A, B), 'sdiv': lambda: A / B, 'srem': lambda: z3.SRem(A, B)}[op]()
    r = z3.simplify(r)
    return r.as_long() if z3.is_bv_value(r) else r

def icmp(pred, n, a, b):
    if isinstance(a, int) and isinstance(b, int):
        sa, sb = sext(a, n), sext(b, n)
        return int({'eq': a == b, 'ne': a != b, 'ugt': a > b, 'uge': a >= b, 'ult': a < b, 'ule': a <= b,
                    'sgt': sa > sb, 'sge': sa >= sb, 'slt': sa < sb, 'sle': sa <= sb}[pred])
    A, B = bv(a, n), bv(b, n)
    c = {'eq': A == B, 'ne': A != B, 'ugt': z3.UGT(A, B), 'uge': z3.UGE(A, B), 'ult': z3.ULT(A, B), 'ule': z3.ULE(A, B),
         'sgt': A > B, 'sge': A >= B, 'slt': A < B, 'sle': A <= B}[pred]
    r = z3.simplify(z3.If(c, z3.BitVecVal(1, 1), z3.BitVecVal(0, 1)))
    return r.as_long() if z3.is_bv_value(r) else r

RNE = z3.RNE()

def fpop(op, n, a, b):
    A = to_z3fp(a, n); B = to_z3fp(b, n) if b is not None else None
    e = {'fadd': lambda: z3.fpAdd(RNE, A, B), 'fsub': lambda: z3.fpSub(RNE, A, B), 'fmul': lambda: z3.fpMul(RNE, A, B),
         'fdiv': lambda: z3.fpDiv(RNE, A, B), 'fneg': lambda: z3.fpNeg(A)}[op]()
    return from_z3fp(e, n)

def fcmp(pred, n, a, b):
    A, B = to_z3fp(a, n), to_z3fp(b, n)
    unord = z3.Or(z3.fpIsNaN(A), z3.fpIsNaN(B))
    base = {'eq': z3.fpEQ(A, B), 'gt': z3.fpGT(A, B), 'ge': z3.fpGEQ(A, B), 'lt': z3.fpLT(A, B), 'le': z3.fpLEQ(A, B), 'ne': z3.Not(z3.fpEQ(A, B))}
    if pred in ('true', 'false'): return int(pred == 'true')
    if pred == 'ord': c = z3.Not(unord)
    elif pred == 'uno': c = unord
    elif pred[0] == 'o': c = z3.And(z3.Not(unord), base[pred[1:]])
    else: c = z3.Or(unord, base[pred[1:]])
    r = z3.simplify(z3.If(c, z3.BitVecVal(1, 1), z3.BitVecVal(0, 1)))
    return r.as_long() if z3.is_bv_value(r) else r

def cast(m, op, sty, v, dty):
    if op in ('bitcast', 'inttoptr', 'ptrtoint'):
        if dty.k == 'fp': return as_fp(fp_bits(v), dty.n)
        if sty.k == 'fp':
            b = fp_bits(v); return b & mask(sty.n) if isinstance(b, int) else b
        return v
    if op in ('zext', 'sext', 'trunc'):
        if isinstance(v, int):
            if op == 'sext': return sext(v, sty.n) & mask(dty.n)
            return v & mask(dty.n)
        r = {'zext': lambda: z3.ZeroExt(dty.n - sty.n, v), 'sext': lambda: z3.SignExt(dty.n - sty.n, v), 'trunc': lambda: z3.Extract(dty.n - 1, 0, v)}[op]()
        r = z3.simplify(r); return r.as_long() if z3.is_bv_value(r) else r
    if op in ('fptoui', 'fptosi'):
        A = to_z3fp(v, sty.n)
        r = z3.simplify((z3.fpToUBV if op == 'fptoui' else z3.fpToSBV)(z3.RTZ(), A, z3.BitVecSort(dty.n)))
        return r.as_long() if z3.is_bv_value(r) else r
    if op in ('uitofp', 'sitofp'):
        A = bv(v, sty.n)
        e = z3.fpToFPUnsigned(RNE, A, fpsort(dty.n)) if op == 'uitofp' else z3.fpToFP(RNE, A, fpsort(dty.n))
        return from_z3fp(e, dty.n)
    if op in ('fpext', 'fptrunc'):
        return from_z3fp(z3.fpFPToFP(RNE, to_z3fp(v, sty.n), fpsort(dty.n)), dty.n)
    raise EngineLimit(op)

def small_int(v, limit=64):
    """A symbolic length/count becomes concrete by forking over 0..limit (each value is one engine branch)."""
    if isinstance(v, int): return v
    for k in range(limit + 1):
        if Engine.cur.branch(v == k): return k
    raise EngineLimit(f'symbolic length above {limit}')

def call(m, callee, args, depth):
    name = callee[1:].strip('"')
    if name.startswith('llvm.lifetime') or name.startswith('llvm.dbg') or name.startswith('llvm.assume') or name.startswith('llvm.experimental.noalias'):
        return None
    if name.startswith('llvm.memcpy') or name.startswith('llvm.memmove'):
        d, s_, n = args[0], args[1], small_int(args[2])
        bs = [m.readbyte(s_ + i) for i in range(n)]
        for i, b in enumerate(bs): m.mem[d + i] = b
        return None
    if name.startswith('llvm.memset'):
        d, v, n = args[0], args[1], small_int(args[2])
        for i in range(n): m.mem[d + i] = v
        return None
    if name.startswith('llvm.bswap'):
        n = int(name.split('.i')[-1]); v = args[0]
        if isinstance(v, int): return int.from_bytes(v.to_bytes(n // 8, 'little'), 'big')
        r = z3.simplify(z3.Concat(*[z3.Extract(8 * i + 7, 8 * i, v) for i in range(n // 8)]))
        return r
    if name.startswith('llvm.fmuladd') or name.startswith('llvm.fma.'):
        n = 32 if name.endswith('f32') else 64
        a, b, c = (to_z3fp(x, n) for x in args)
        return from_z3fp(z3.fpFMA(RNE, a, b, c), n)
    if name.startswith(('llvm.ceil.', 'llvm.floor.', 'llvm.trunc.', 'llvm.rint.', 'llvm.nearbyint.')):
        n = 32 if name.endswith('f32') else 64
        rm = {'ceil': z3.RTP(), 'floor': z3.RTN(), 'trunc': z3.RTZ(), 'rint': RNE, 'nearbyint': RNE}[name.split('.')[1]]
        return from_z3fp(z3.fpRoundToIntegral(rm, to_z3fp(args[0], n)), n)
    if name.startswith('llvm.fabs.'):
        n = 32 if name.endswith('f32') else 64
        return from_z3fp(z3.fpAbs(to_z3fp(args[0], n)), n)
    if name.startswith(('llvm.ctlz.', 'llvm.cttz.', 'llvm.ctpop.')):
        n = int(name.split('.i')[-1]); v = args[0]
        if not isinstance(v, int): raise EngineLimit(name + ' of a symbolic value')
        v &= mask(n)
        if 'ctpop' in name: return bin(v).count('1')
        if v == 0: return n
        return n - v.bit_length() if 'ctlz' in name else (v & -v).bit_length() - 1
    if name.startswith(('llvm.umax.', 'llvm.umin.', 'llvm.smax.', 'llvm.smin.')):
        n = int(name.split('.i')[-1]); a, b = args[0], args[1]
        kind = name.split('.')[1]
        if isinstance(a, int) and isinstance(b, int):
            if kind[0] == 's': x, y = sext(a, n), sext(b, n)
            else: x, y = a & mask(n), b & mask(n)
            return (a if ((x >= y) == (kind.endswith('max'))) else b) & mask(n)
        A, B = bv(a, n), bv(b, n)
        ge = (A >= B) if kind[0] == 's' else z3.UGE(A, B)
        return z3.simplify(z3.If(ge, A, B) if kind.endswith('max') else z3.If(ge, B, A))
    if name.startswith('llvm.fshl') or name.startswith('llvm.fshr'):
        n = int(name.split('.i')[-1]); a, b, c = (bv(x, n) for x in args)
        cat = z3.Concat(a, b); sh = z3.ZeroExt(n, z3.URem(c, n))
        r = z3.Extract(2 * n - 1, n, cat << sh) if 'fshl' in name else z3.Extract(n - 1, 0, z3.LShR(cat, sh))
        r = z3.simplify(r); return r.as_long() if z3.is_bv_value(r) else r
    if callee in m.overrides:
        return m.overrides[callee](m, *args)
    if callee in m.mod.funcs:
        return run(m, callee, args, depth + 1)
    if callee in m.natives:
        return m.natives[callee](m, *args)
    raise EngineLimit('call to undefined ' + callee)
