"""pysym - proxy-based symbolic execution of real Python code over z3 bit-vectors.

The functions of /repo run unmodified on proxy objects.  A `SymInt` wraps a z3 BitVec(W) together with a
conservative Python-int interval; every operator checks that the result interval stays inside the signed W-bit
range (else `EngineLimit` -> the run is inconclusive, never "passed"), so two's-complement BV arithmetic coincides
with Python's unbounded ints.  `SymBool.__bool__` asks the engine, which decides/forks with the solver.
Exploration is depth-first re-execution along a decision vector until the decision tree is exhausted.
"""
from __future__ import annotations

import math
import struct as _struct
import sys
import time

import z3

W = 128  # width of the bit-vector that stands in for Python's unbounded int (interval-checked)


class EngineLimit(Exception):
    """The engine cannot model this operation exactly: the run is inconclusive."""


class PathAbort(BaseException):
    """Current path is infeasible; not an Exception so the code under test cannot swallow it."""


class WorkBound(Exception):
    """Raised by the forking range() when the code iterates more often than the harness allows."""


class Engine:
    cur: "Engine" = None  # type: ignore

    def __init__(self, timeout_ms: int = 30000, max_paths: int = 200000):
        self.decisions: list = []
        self.pos = 0
        self.pc: list = []
        self.nchecks = 0
        self.solver_time = 0.0
        self.s = z3.Solver()
        self.s.set("timeout", timeout_ms)
        self.max_paths = max_paths
        self.npaths = 0
        self.unknowns = 0
        self.steps = 0
        self._live = False
        self._known = {}
        self._keep = []

    # ---- solver ----
    def check(self, *extra, pc=None):
        """Satisfiability of the current path condition (or an explicit pc) plus extra constraints.

        During exploration the solver holds the live path condition incrementally (see _push_pc) and `extra` is
        passed as assumptions; with an explicit pc a fresh frame is used."""
        t = time.time()
        if pc is None and self._live:
            r = self.s.check(*extra)
            m = self.s.model() if r == z3.sat else None
        else:
            self.s.push()
            for c in (self.pc if pc is None else pc):
                self.s.add(c)
            for c in extra:
                self.s.add(c)
            r = self.s.check()
            m = self.s.model() if r == z3.sat else None
            if CrossCheck.enabled and str(r) != "unknown":
                CrossCheck.maybe(self.s, str(r))
            self.s.pop()
        self.nchecks += 1
        self.solver_time += time.time() - t
        r = str(r)
        if r == "unknown":
            self.unknowns += 1
        return r, m

    def _add_pc(self, c):
        self.pc.append(c)
        if self._live:
            self.s.add(c)

    def branch(self, cond) -> bool:
        cond = z3.simplify(cond)
        if z3.is_true(cond):
            return True
        if z3.is_false(cond):
            return False
        key = cond.get_id()
        if key in self._known:           # the same condition was already decided on this path
            return self._known[key]
        if self.pos < len(self.decisions):
            take = self.decisions[self.pos][0]
        else:
            rt, _ = self.check(cond)
            rf, _ = self.check(z3.Not(cond))
            if "unknown" in (rt, rf):
                raise EngineLimit("solver returned unknown at a branch")
            if rt == "sat" and rf == "sat":
                self.decisions.append([True, True])
                take = True
            elif rt == "sat":
                self.decisions.append([True, False])
                take = True
            elif rf == "sat":
                self.decisions.append([False, False])
                take = False
            else:
                raise PathAbort()
        self.pos += 1
        self._add_pc(cond if take else z3.Not(cond))
        self._known[key] = take
        self._keep.append(cond)
        return take

    def assume(self, cond):
        """Constrain the rest of the current path (placed before the code it constrains)."""
        cond = z3.simplify(cond)
        if z3.is_true(cond):
            return
        self._add_pc(cond)
        r, _ = self.check()
        if r == "unknown":
            raise EngineLimit("solver unknown in assume")
        if r == "unsat":
            raise PathAbort()

    def explore(self, fn, assumptions=()):
        """Yield (kind, value, pc) for every feasible path of fn(); kind in {'ret','exc'}."""
        r, _ = self.check(pc=list(assumptions))
        if r != "sat":
            raise EngineLimit(f"assumptions are {r} (vacuous harness)")
        while True:
            self.pos = 0
            self.pc = list(assumptions)
            self._known = {}
            self._keep = []
            Engine.cur = self
            self.s.push()
            for c in self.pc:
                self.s.add(c)
            self._live = True
            try:
                out = ("ret", fn())
            except PathAbort:
                out = None
            except EngineLimit:
                raise
            except RecursionError:
                raise EngineLimit("recursion limit")
            except Exception as e:  # the real code raised
                out = ("exc", e)
            finally:
                Engine.cur = None
                self._live = False
                self.s.pop()
            if out is not None:
                self.npaths += 1
                if self.npaths > self.max_paths:
                    raise EngineLimit("path budget exceeded")
                yield out[0], out[1], list(self.pc)
            while self.decisions and not self.decisions[-1][1]:
                self.decisions.pop()
            if not self.decisions:
                return
            self.decisions[-1] = [False, False]


class CrossCheck:
    """Second-solver spot check (thorough tier): a VERIF_SEED-chosen fraction of the obligation queries is dumped as
    SMT-LIB2 and re-decided by the cvc5 1.0.3 and z3 4.8.12 binaries; a definite answer that differs from ours, or an
    '(error' line, is recorded as a disagreement (the run becomes inconclusive)."""

    enabled = False
    rate = 0.02
    rng = None
    stats = {"dumped": 0, "agree": 0, "unknown_or_timeout": 0, "disagree": 0, "notes": []}

    @classmethod
    def enable(cls, seed, rate=0.02):
        import random
        cls.enabled, cls.rate, cls.rng = True, rate, random.Random(seed)

    @classmethod
    def maybe(cls, solver, ours):
        if cls.rng.random() >= cls.rate:
            return
        import os
        import subprocess
        import tempfile
        try:
            text = solver.to_smt2()
        except Exception as e:  # cannot print: not a disagreement
            return
        cls.stats["dumped"] += 1
        fd, path = tempfile.mkstemp(suffix=".smt2", prefix="verif_x_")
        try:
            with os.fdopen(fd, "w") as f:
                f.write("(set-logic ALL)\n" + text.replace("(set-logic ALL)", ""))
            for cmd in (["cvc5", "--tlimit=20000", path], ["/usr/bin/z3", "-T:20", path]):
                try:
                    p = subprocess.run(cmd, capture_output=True, text=True, timeout=40)
                    out = (p.stdout + p.stderr).strip()
                except subprocess.TimeoutExpired:
                    out = "timeout"
                first = out.splitlines()[0].strip() if out else ""
                if "(error" in out or first not in ("sat", "unsat"):
                    cls.stats["unknown_or_timeout"] += 1
                elif first == ours:
                    cls.stats["agree"] += 1
                else:
                    cls.stats["disagree"] += 1
                    cls.stats["notes"].append(f"{cmd[0]} says {first}, z3 5.1 says {ours}")
        finally:
            try:
                os.unlink(path)
            except OSError:
                pass


def _bits(n: int) -> int:
    return n.bit_length() + 1


class SymBool:
    __slots__ = ("e",)

    def __init__(self, e):
        self.e = e

    def __bool__(self):
        return Engine.cur.branch(self.e)

    def __invert__(self):
        return SymBool(z3.Not(self.e))

    def __eq__(self, o):
        if isinstance(o, SymBool):
            return SymBool(self.e == o.e)
        if isinstance(o, bool):
            return SymBool(self.e if o else z3.Not(self.e))
        return NotImplemented

    __hash__ = None  # type: ignore


def bool_expr(x):
    if isinstance(x, SymBool):
        return x.e
    return z3.BoolVal(bool(x))


INDEX_FORKS = 64


def _min_feasible(eng, x, floor):
    """Smallest value >= floor that x can take on the current path (None if there is none)."""
    lo, hi = max(floor, x.lo), x.hi
    if lo > hi:
        return None
    r, _ = eng.check(x.e >= z3.BitVecVal(lo, W), x.e <= z3.BitVecVal(hi, W))
    if r == "unknown":
        raise EngineLimit("solver unknown while concretising an index")
    if r != "sat":
        return None
    while lo < hi:
        mid = (lo + hi) // 2
        r, _ = eng.check(x.e >= z3.BitVecVal(lo, W), x.e <= z3.BitVecVal(mid, W))
        if r == "unknown":
            raise EngineLimit("solver unknown while concretising an index")
        if r == "sat":
            hi = mid
        else:
            lo = mid + 1
    return lo


class SymInt:
    __slots__ = ("e", "lo", "hi")
    # isinstance(x, int) is answered through __class__ (CrossHair's trick) so run-time type checkers
    # (beartype / pyserde strict) accept the proxy; C code needing a machine int fails loudly via __index__.
    __class__ = property(lambda s: int)  # type: ignore

    def __init__(self, e, lo, hi):
        if max(_bits(lo), _bits(hi)) > W - 1:
            raise EngineLimit(f"interval [{lo},{hi}] exceeds the {W}-bit int model")
        self.e, self.lo, self.hi = e, lo, hi

    @staticmethod
    def fresh(name, lo, hi):
        v = z3.BitVec(name, W)
        return SymInt(v, lo, hi), z3.And(v >= lo, v <= hi)

    @staticmethod
    def lift(x):
        if type(x) is SymInt:
            return x
        if isinstance(x, bool):
            x = int(x)
        if type(x) is int:
            return SymInt(z3.BitVecVal(x, W), x, x)
        if type(x) is SymBool:
            return SymInt(z3.If(x.e, z3.BitVecVal(1, W), z3.BitVecVal(0, W)), 0, 1)
        raise TypeError(f"cannot lift {type(x)!r} to SymInt")

    @staticmethod
    def _mk(e, lo, hi):
        e = z3.simplify(e)
        if z3.is_bv_value(e):
            return e.as_signed_long()
        if lo == hi:
            return lo
        return SymInt(e, lo, hi)

    # shifts (by concrete amounts, as in the code under test)
    def __rshift__(self, k):
        if type(k) is SymInt:
            k = k.__index__()
        if type(k) is not int or k < 0:
            raise EngineLimit("shift by symbolic/negative amount")
        return SymInt._mk(self.e >> k, self.lo >> k, self.hi >> k)

    def __lshift__(self, k):
        if type(k) is SymInt:
            k = k.__index__()
        if type(k) is not int or k < 0:
            raise EngineLimit("shift by symbolic/negative amount")
        return SymInt._mk(self.e << k, self.lo << k, self.hi << k)

    def __rlshift__(self, base):
        # concrete << symbolic: only 1 << n (n small, bounded)
        if type(base) is int and base >= 0 and self.lo >= 0 and self.hi < W - 2 - base.bit_length():
            return SymInt._mk(z3.BitVecVal(base, W) << self.e, base << self.lo, base << self.hi)
        if type(base) is int:
            return base << self.__index__()
        raise EngineLimit("concrete << symbolic outside model")

    def __rrshift__(self, base):
        if type(base) is int:
            return base >> self.__index__()
        raise EngineLimit("concrete >> symbolic outside model")

    def __rpow__(self, base):
        if base == 2 and self.lo >= 0 and self.hi < W - 3:
            return SymInt._mk(z3.BitVecVal(1, W) << self.e, 1 << self.lo, 1 << self.hi)
        raise EngineLimit("pow with symbolic exponent outside model")

    def _bw(self, o, op):
        o = SymInt.lift(o)
        n = max(_bits(self.lo), _bits(self.hi), _bits(o.lo), _bits(o.hi))
        if self.lo >= 0 and o.lo >= 0:
            lo, hi = 0, (1 << (n - 1)) - 1
            if op == "and":
                hi = min(self.hi, o.hi)
        elif op == "and" and (self.lo >= 0 or o.lo >= 0):
            lo, hi = 0, (self.hi if self.lo >= 0 else o.hi)
        else:
            lo, hi = -(1 << (n - 1)), (1 << (n - 1)) - 1
        e = {"and": self.e & o.e, "or": self.e | o.e, "xor": self.e ^ o.e}[op]
        return SymInt._mk(e, lo, hi)

    def __and__(self, o):
        return self._bw(o, "and")

    __rand__ = __and__

    def __or__(self, o):
        return self._bw(o, "or")

    __ror__ = __or__

    def __xor__(self, o):
        return self._bw(o, "xor")

    __rxor__ = __xor__

    def __invert__(self):
        return SymInt._mk(~self.e, ~self.hi, ~self.lo)

    def __add__(self, o):
        if isinstance(o, float):
            raise EngineLimit("int + float")
        o = SymInt.lift(o)
        return SymInt._mk(self.e + o.e, self.lo + o.lo, self.hi + o.hi)

    __radd__ = __add__

    def __sub__(self, o):
        o = SymInt.lift(o)
        return SymInt._mk(self.e - o.e, self.lo - o.hi, self.hi - o.lo)

    def __rsub__(self, o):
        return SymInt.lift(o).__sub__(self)

    def __neg__(self):
        return SymInt._mk(-self.e, -self.hi, -self.lo)

    def __pos__(self):
        return self

    def __abs__(self):
        if self.lo >= 0:
            return self
        return SymInt._mk(z3.If(self.e < 0, -self.e, self.e), 0, max(abs(self.lo), abs(self.hi)))

    def __mul__(self, k):
        if isinstance(k, (list, tuple, str, bytes)):
            return _sym_repeat(k, self)
        if type(k) is SymInt:
            c = [self.lo * k.lo, self.lo * k.hi, self.hi * k.lo, self.hi * k.hi]
            return SymInt._mk(self.e * k.e, min(c), max(c))
        if isinstance(k, bool):
            k = int(k)
        if type(k) is not int:
            raise EngineLimit(f"int * {type(k).__name__}")
        a, b = self.lo * k, self.hi * k
        return SymInt._mk(self.e * k, min(a, b), max(a, b))

    __rmul__ = __mul__

    def __floordiv__(self, k):
        if type(k) is not int or k <= 0:
            raise EngineLimit("floordiv by non-positive/symbolic")
        # Python floor division; BV sdiv truncates -> correct via shift for powers of two, else case split
        if k & (k - 1) == 0:
            return self >> (k.bit_length() - 1)
        q = z3.If(self.e >= 0, self.e / k, -((-self.e + (k - 1)) / k))
        return SymInt._mk(q, self.lo // k, self.hi // k)

    def __mod__(self, k):
        if type(k) is not int or k <= 0:
            raise EngineLimit("mod by non-positive/symbolic")
        if k & (k - 1) == 0:
            return self & (k - 1)
        q = self // k
        return self - q * k

    def __truediv__(self, k):
        raise EngineLimit("true division of a symbolic int (float result)")

    def __rtruediv__(self, k):
        raise EngineLimit("true division by a symbolic int (float result)")

    def _cmp(self, o, f):
        o = SymInt.lift(o)
        return SymBool(f(self.e, o.e))

    # int <op> float: exact CPython semantics for integer x
    def __gt__(self, o):
        if isinstance(o, float):
            return self > math.floor(o)  # x > f  <=>  x > floor(f)
        return self._cmp(o, lambda a, b: a > b)

    def __ge__(self, o):
        if isinstance(o, float):
            return self >= math.ceil(o)  # x >= f <=> x >= ceil(f)
        return self._cmp(o, lambda a, b: a >= b)

    def __lt__(self, o):
        if isinstance(o, float):
            return self < math.ceil(o)
        return self._cmp(o, lambda a, b: a < b)

    def __le__(self, o):
        if isinstance(o, float):
            return self <= math.floor(o)
        return self._cmp(o, lambda a, b: a <= b)

    def __eq__(self, o):
        if isinstance(o, float):
            if o != math.floor(o):
                return False
            o = int(o)
        if type(o) in (int, bool, SymInt, SymBool):
            return self._cmp(o, lambda a, b: a == b)
        return False

    def __ne__(self, o):
        if isinstance(o, float):
            if o != math.floor(o):
                return True
            o = int(o)
        if type(o) in (int, bool, SymInt, SymBool):
            return self._cmp(o, lambda a, b: a != b)
        return True

    __hash__ = None  # type: ignore

    def __bool__(self):
        return Engine.cur.branch(self.e != 0)

    def bit_length(self):
        """int.bit_length() of a non-negative symbolic int (exact: comparison chain against powers of two)."""
        if self.lo < 0:
            raise EngineLimit("bit_length of a possibly negative symbolic int")
        n = max(1, self.hi.bit_length())
        e = z3.BitVecVal(0, W)
        for k in range(n):
            e = z3.If(self.e >= (1 << k), z3.BitVecVal(k + 1, W), e)
        return SymInt._mk(e, self.lo.bit_length(), self.hi.bit_length())

    def to_bytes(self, length=1, byteorder="big", *, signed=False):
        if not signed and self.lo < 0:
            if self < 0:
                raise OverflowError("can't convert negative int to unsigned")
        out = [SymInt._mk(z3.ZeroExt(W - 8, z3.Extract(8 * i + 7, 8 * i, self.e)), 0, 255) for i in range(length)]
        return SymByteArray(out if byteorder == "little" else out[::-1])

    def __divmod__(self, o):
        return self // o, self % o

    def __index__(self):
        """A C boundary needs a machine int (slice bound, repeat count, shift amount): the path splits per feasible
        value, smallest first (found by bisection with the solver, so re-execution meets the same sequence); more than
        INDEX_FORKS values is an EngineLimit, never a guess."""
        eng = Engine.cur
        if eng is None or not getattr(eng, "_live", False):
            raise EngineLimit("symbolic int used at a C boundary (__index__)")
        floor = self.lo
        for _ in range(INDEX_FORKS):
            v = _min_feasible(eng, self, floor)
            if v is None:
                raise PathAbort()
            if eng.branch(self.e == z3.BitVecVal(v, W)):
                return v
            floor = v + 1
            if floor > self.hi:
                raise PathAbort()
        raise EngineLimit(f"symbolic int with more than {INDEX_FORKS} feasible values used at a C boundary (__index__)")

    def __int__(self):
        raise EngineLimit("symbolic int used at a C boundary (__int__)")

    def __float__(self):
        raise EngineLimit("symbolic int used at a C boundary (__float__)")

    def __repr__(self):
        return f"<SymInt [{self.lo},{self.hi}] {str(self.e)[:60]}>"

    def __format__(self, spec):
        return f"<sym:{str(self.e)[:30]}>"


def _sym_repeat(seq, n):
    """seq * n for a symbolic count: an allocation proportional to a symbolic value.  Counts against the work budget
    (WorkBound when the count may exceed it), otherwise forks over the feasible counts."""
    w = ForkingRange.work
    budget = (w[0] // 8) if w is not None else 512     # an element costs at least one loop iteration per bit read
    if n > budget:
        if n >= (1 << 29):   # prefer a witness whose replay is unmistakable (allocation fails under the replay's rlimit)
            raise WorkBound("allocation proportional to a symbolic count (>= 2^29 elements)")
        raise WorkBound("allocation proportional to a symbolic count beyond the work budget")
    k = 0
    while True:
        if n == k:
            if w is not None:
                w[0] -= k
            return seq * k
        k += 1
        if k > budget + 1:
            raise EngineLimit("symbolic repeat count not resolved")


def z3of(x):
    return SymInt.lift(x).e


def concretize(x, model):
    """Evaluate a (possibly symbolic, possibly nested) value in a z3 model (model completion on)."""
    if type(x) is SymInt:
        return model.eval(x.e, model_completion=True).as_signed_long()
    if type(x) is SymBool:
        return z3.is_true(model.eval(x.e, model_completion=True))
    if type(x) is SymFloat:
        bits = model.eval(x.e, model_completion=True).as_long()
        return ("f32" if x.nbits == 32 else "f64", bits)
    if type(x) is SymAtom:
        return x.realize(model)
    if isinstance(x, SymStr):
        return "".join(chr(concretize(c, model)) for c in x)
    if isinstance(x, dict):
        return {concretize(k, model): concretize(v, model) for k, v in x.items()}
    if isinstance(x, (list, tuple)):
        return [concretize(v, model) for v in x]
    return x


# ---------------------------------------------------------------- floats (bit patterns only; no arithmetic)
class SymFloat:
    __slots__ = ("e", "nbits")
    __class__ = property(lambda s: float)  # type: ignore

    def __init__(self, bits_e, nbits):
        self.e, self.nbits = bits_e, nbits

    def __float__(self):
        raise EngineLimit("symbolic float used at a C boundary")

    def __bool__(self):
        # float truthiness: false exactly for +0.0 and -0.0 (NaN is truthy)
        mag = z3.Extract(self.nbits - 2, 0, self.e)
        return Engine.cur.branch(mag != 0)

    __hash__ = None  # type: ignore

    def _nope(self, *a):
        raise EngineLimit("arithmetic/comparison on a symbolic float")

    __add__ = __sub__ = __mul__ = __truediv__ = __lt__ = __le__ = __gt__ = __ge__ = _nope
    __radd__ = __rsub__ = __rmul__ = __rtruediv__ = __neg__ = _nope

    def __eq__(self, o):
        raise EngineLimit("== on a symbolic float (use obligations)")


# ---------------------------------------------------------------- strings / atoms
class SymStr(list):
    """A string of concrete length whose code points may be symbolic (list of int | SymInt)."""

    __class__ = property(lambda s: str)  # type: ignore

    def __eq__(self, o):
        raise EngineLimit("== on SymStr (use obligations)")

    __hash__ = None  # type: ignore

    def encode(self, enc="ascii", errors="strict"):
        codec = str(enc).lower().replace("_", "-")
        top = {"ascii": 127, "us-ascii": 127, "utf-8": 127, "utf8": 127, "latin-1": 255, "latin1": 255, "iso-8859-1": 255}.get(codec)
        if top is None or errors != "strict":
            raise EngineLimit(f"encode with codec {enc!r} / errors {errors!r}")
        out = SymByteArray()
        for c in self:
            if type(c) is SymInt:
                if c.hi > top or c.lo < 0:
                    if (c > top) or (c < 0):
                        if codec in ("utf-8", "utf8"):
                            raise EngineLimit("utf-8 encoding of a code point above 127")
                        raise UnicodeEncodeError(codec, "", 0, 1, f"ordinal not in range({top + 1})")
            elif not 0 <= c <= top:
                if codec in ("utf-8", "utf8"):
                    raise EngineLimit("utf-8 encoding of a code point above 127")
                raise UnicodeEncodeError(codec, "", 0, 1, f"ordinal not in range({top + 1})")
            out.append(c)
        return out


class SymByteArray(list):
    def decode(self, enc="ascii", errors="strict"):
        codec = str(enc).lower().replace("_", "-")
        if errors != "strict":
            raise EngineLimit(f"decode with errors={errors!r}")
        if codec in ("latin-1", "latin1", "iso-8859-1"):
            return SymStr(self)                     # every byte is its own code point
        if codec not in ("ascii", "us-ascii", "utf-8", "utf8"):
            raise EngineLimit(f"decode with codec {enc!r}")
        for b in self:
            if type(b) is SymInt:
                if b.hi > 127:
                    if b > 127:
                        if codec in ("utf-8", "utf8"):
                            raise EngineLimit("utf-8 decoding of a byte above 127")
                        raise UnicodeDecodeError("ascii", b"", 0, 1, "ordinal not in range(128)")
            elif b > 127:
                if codec in ("utf-8", "utf8"):
                    raise EngineLimit("utf-8 decoding of a byte above 127")
                raise UnicodeDecodeError("ascii", b"", 0, 1, "ordinal not in range(128)")
        return SymStr(self)


_ATOM_SORT = None


def atom_sort():
    global _ATOM_SORT
    if _ATOM_SORT is None:
        _ATOM_SORT = z3.DeclareSort("Name")
    return _ATOM_SORT


class SymAtom:
    """An opaque name: only equality is observable.  Concrete strings map to interned constants that are
    pairwise distinct (asserted through `AtomSpace.constraints`)."""

    __slots__ = ("e", "label")
    __class__ = property(lambda s: str)  # type: ignore

    def __init__(self, label, e=None):
        self.label = label
        self.e = e if e is not None else z3.Const("atom_" + label, atom_sort())

    def _other(self, o):
        if type(o) is SymAtom:
            return o.e
        if type(o) is str:
            return AtomSpace.cur.const(o)
        return None

    def __eq__(self, o):
        oe = self._other(o)
        if oe is None:
            return False
        if oe is self.e or z3.eq(oe, self.e):
            return True
        return SymBool(self.e == oe)

    def __ne__(self, o):
        oe = self._other(o)
        if oe is None:
            return True
        if oe is self.e or z3.eq(oe, self.e):
            return False
        return SymBool(self.e != oe)

    def __hash__(self):
        return 0  # all atoms collide: dict/set lookups fall back to == (which forks)

    def __str__(self):
        return f"⟦{self.label}⟧"

    __repr__ = __str__

    def __format__(self, spec):
        return str(self)

    def __add__(self, o):
        return SymText([self, o])

    def __radd__(self, o):
        return SymText([o, self])

    def realize(self, model):
        return AtomSpace.cur.realize(self, model)

    def _nope(self, *a, **k):
        raise EngineLimit("string operation on an opaque name atom")

    __getitem__ = __len__ = __iter__ = __contains__ = __lt__ = __gt__ = _nope
    startswith = endswith = split = replace = lower = upper = join = _nope


class SymText:
    """Concatenation of str pieces and atoms (error messages, hierarchical names): structural equality."""

    __class__ = property(lambda s: str)  # type: ignore

    def __init__(self, parts):
        flat = []
        for p in parts:
            if type(p) is SymText:
                flat += p.parts
            elif type(p) is str and flat and type(flat[-1]) is str:
                flat[-1] += p
            elif p != "" or type(p) is not str:
                flat.append(p)
        self.parts = flat

    def __add__(self, o):
        return SymText(self.parts + [o])

    def __radd__(self, o):
        return SymText([o] + self.parts)

    def __str__(self):
        return "".join(str(p) for p in self.parts)

    __repr__ = __str__

    def __format__(self, spec):
        return str(self)

    def __hash__(self):
        return 0

    def __eq__(self, o):
        raise EngineLimit("== on SymText")


class AtomSpace:
    """Interning of concrete strings as distinct constants of the Name sort."""

    cur: "AtomSpace" = None  # type: ignore

    def __init__(self):
        self.consts = {}
        AtomSpace.cur = self

    def const(self, s: str):
        if s not in self.consts:
            self.consts[s] = z3.Const("str_" + s, atom_sort())
        return self.consts[s]

    def constraints(self):
        cs = list(self.consts.values())
        return [z3.Distinct(*cs)] if len(cs) > 1 else []

    def realize(self, atom, model):
        v = model.eval(atom.e, model_completion=True)
        for s, c in self.consts.items():
            if z3.eq(model.eval(c, model_completion=True), v):
                return s
        return "n_" + str(v).replace("!", "_").replace("Name", "")


# ---------------------------------------------------------------- stubs for builtins at the C boundary
def sym_int(x=0, *a):
    if type(x) in (SymInt,):
        return x
    if type(x) is SymBool:
        return SymInt.lift(x)
    return int(x, *a)


def sym_float(x=0.0):
    if type(x) is SymFloat:
        return x
    return float(x)


def sym_bytearray(x=()):
    out = SymByteArray()
    for b in x:
        if type(b) is SymInt:
            if not (b.lo >= 0 and b.hi <= 255):
                if (b < 0) or (b > 255):
                    raise ValueError("byte must be in range(0, 256)")
        else:
            if not 0 <= b <= 255:
                raise ValueError("byte must be in range(0, 256)")
        out.append(b)
    return out


def sym_ord(c):
    if type(c) in (SymInt, int):
        return c
    return ord(c)


def sym_chr(c):
    if type(c) is SymInt:
        return c
    return chr(c)


def sym_len(x):
    return len(x)


def sym_max(*args, default=None, key=None):
    if key is not None:
        raise EngineLimit("max(key=) not modelled")
    it = list(args[0]) if len(args) == 1 else list(args)
    if not it:
        if default is None:
            raise ValueError("max() arg is an empty sequence")
        return default
    cur = it[0]
    for x in it[1:]:
        if x > cur:
            cur = x
    return cur


def sym_min(*args, default=None, key=None):
    if key is not None:
        raise EngineLimit("min(key=) not modelled")
    it = list(args[0]) if len(args) == 1 else list(args)
    if not it:
        if default is None:
            raise ValueError("min() arg is an empty sequence")
        return default
    cur = it[0]
    for x in it[1:]:
        if x < cur:
            cur = x
    return cur


def sym_sum(it, start=0):
    acc = start
    for x in it:
        acc = acc + x
    return acc


def sym_sorted(it, key=None, reverse=False):
    """Insertion sort through the proxies' comparisons: forks over all feasible orders; stable like sorted()."""
    items = list(it)
    keys = [key(x) if key else x for x in items]
    out: list = []
    outk: list = []
    for x, k in zip(items, keys):
        i = len(out)
        while i > 0 and ((outk[i - 1] < k) if reverse else (k < outk[i - 1])):
            i -= 1
        out.insert(i, x)
        outk.insert(i, k)
    return out


class ForkingRange:
    """range() whose bound may be symbolic: iteration i happens iff the solver allows i < n (forks).

    `budget` is a shared work counter (list with one int) so harnesses can bound total iterations."""

    work = None  # optional [remaining] shared budget
    cap = 1 << 20

    def __init__(self, *a):
        if len(a) == 1:
            self.start, self.stop, self.step = 0, a[0], 1
        elif len(a) == 2:
            self.start, self.stop, self.step = a[0], a[1], 1
        else:
            self.start, self.stop, self.step = a
        if type(self.step) is not int or self.step != 1 and type(self.stop) is SymInt:
            raise EngineLimit("range with symbolic/non-unit step")

    def __iter__(self):
        if type(self.stop) is not SymInt and type(self.start) is not SymInt:
            for i in range(self.start, self.stop, self.step):
                ForkingRange._tick()
                yield i
            return
        i = self.start
        n = 0
        while i < self.stop:
            ForkingRange._tick()
            yield i
            i = i + 1
            n += 1
            if n > ForkingRange.cap:
                raise EngineLimit("range iteration cap")

    @staticmethod
    def _tick():
        w = ForkingRange.work
        if w is not None:
            w[0] -= 1
            if w[0] < 0:
                raise WorkBound("iteration budget exhausted")

    def __len__(self):
        if type(self.stop) is SymInt or type(self.start) is SymInt:
            raise TypeError("len() of a range with a symbolic bound")  # list() then falls back to plain iteration
        return len(range(self.start, self.stop, self.step))


class StructStub:
    """struct.pack/unpack for a single 'f'/'d' or integer code (b B h H i I l L q Q), native/little-endian byte order
    (x86-64): IEEE-754 image for floats, two's-complement image for ints."""

    error = _struct.error
    INTS = {"b": (1, True), "B": (1, False), "h": (2, True), "H": (2, False), "i": (4, True), "I": (4, False),
            "l": (8, True), "L": (8, False), "q": (8, True), "Q": (8, False)}

    @staticmethod
    def _code(fmt):
        f = fmt.lstrip("<=@")
        if fmt.startswith((">", "!")) or len(f) != 1 or (f not in ("f", "d") and f not in StructStub.INTS):
            raise EngineLimit(f"struct format {fmt!r} not modelled")
        if f in ("l", "L") and fmt.startswith(("<", "=")):
            return f, 4
        return f, ({"f": 4, "d": 8}.get(f) or StructStub.INTS[f][0])

    @staticmethod
    def _n(fmt):
        return StructStub._code(fmt)[1]

    @staticmethod
    def calcsize(fmt):
        return _struct.calcsize(fmt)

    @staticmethod
    def pack(fmt, *vs):
        if all(type(v) not in (SymFloat, SymInt) for v in vs):
            return _struct.pack(fmt, *vs)
        if len(vs) != 1:
            raise EngineLimit("struct.pack with several symbolic values")
        v = vs[0]
        f, n = StructStub._code(fmt)
        if type(v) is SymFloat:
            if f not in ("f", "d") or v.nbits != 8 * n:
                raise EngineLimit("float width mismatch in struct.pack")
            e = v.e
        else:
            if f in ("f", "d"):
                raise EngineLimit("struct.pack of a symbolic int as float")
            signed = StructStub.INTS[f][1]
            lo, hi = (-(1 << (8 * n - 1)), (1 << (8 * n - 1)) - 1) if signed else (0, (1 << (8 * n)) - 1)
            if v.lo < lo or v.hi > hi:
                if (v < lo) or (v > hi):
                    raise _struct.error("argument out of range")
            e = z3.Extract(8 * n - 1, 0, v.e)
        return SymByteArray(
            SymInt._mk(z3.ZeroExt(W - 8, z3.Extract(8 * i + 7, 8 * i, e)), 0, 255) for i in range(n)
        )

    @staticmethod
    def unpack(fmt, b):
        b = list(b)
        if all(type(x) is int for x in b):
            return _struct.unpack(fmt, bytes(b))
        f, n = StructStub._code(fmt)
        if len(b) != n:
            raise _struct.error(f"unpack requires a buffer of {n} bytes")
        parts = [z3.Extract(7, 0, z3of(x)) for x in reversed(b)]
        word = z3.simplify(z3.Concat(*parts)) if n > 1 else parts[0]
        if f in ("f", "d"):
            return (SymFloat(word, 8 * n),)
        if StructStub.INTS[f][1]:
            return (SymInt._mk(z3.SignExt(W - 8 * n, word), -(1 << (8 * n - 1)), (1 << (8 * n - 1)) - 1),)
        return (SymInt._mk(z3.ZeroExt(W - 8 * n, word), 0, (1 << (8 * n)) - 1),)


class _IntMeta(type):
    def __instancecheck__(cls, obj):
        return isinstance(obj, int)


class _FloatMeta(type):
    def __instancecheck__(cls, obj):
        return isinstance(obj, float)


class FloatNS(metaclass=_FloatMeta):
    def __new__(cls, x=0.0):
        return sym_float(x)


class SymIntNS(metaclass=_IntMeta):
    """Stand-in for the `int` builtin inside a module under test: callable, isinstance-compatible, from_bytes."""

    def __new__(cls, x=0, *a):
        return sym_int(x, *a)

    @staticmethod
    def from_bytes(b, byteorder="big", signed=False):
        b = list(b)
        if all(type(x) is int for x in b):
            return int.from_bytes(bytes(b), byteorder, signed=signed)
        if signed:
            raise EngineLimit("signed from_bytes")
        seq = b if byteorder == "little" else list(reversed(b))
        acc = 0
        for i, x in enumerate(seq):
            acc = acc | (x << (8 * i))
        return acc


def install(mod, names=("int", "float", "bytearray", "bytes", "ord", "struct", "range", "max", "min", "sorted", "sum", "chr")):
    """Rebind C-boundary builtins in the namespace of the module under test (no repository file is edited)."""
    table = {
        "int": SymIntNS,
        "float": FloatNS,
        "bytes": sym_bytearray,
        "min": sym_min,
        "bytearray": sym_bytearray,
        "ord": sym_ord,
        "chr": sym_chr,
        "struct": StructStub,
        "range": ForkingRange,
        "max": sym_max,
        "sorted": sym_sorted,
        "sum": sym_sum,
    }
    done = []
    for n in names:
        if n == "struct" and not hasattr(mod, "struct"):
            continue
        setattr(mod, n, table[n])
        done.append(n)
    return done


def uninstall(mod, names):
    for n in names:
        if n in mod.__dict__:
            if n == "struct":
                mod.struct = _struct
            else:
                del mod.__dict__[n]


# ---------------------------------------------------------------- which real functions ran
class Coverage:
    """Records qualified names of functions of the repository entered while active."""

    def __init__(self, roots=None):
        import os
        self.root = os.environ.get("VERIF_REPO", "/repo").rstrip("/") + "/"
        self.roots = roots or (self.root,)
        self.seen = set()

    def _prof(self, frame, event, arg):
        if event == "call":
            fn = frame.f_code.co_filename
            if fn.startswith(self.roots):
                self.seen.add(fn.replace(self.root, "") + ":" + frame.f_code.co_qualname)

    def __enter__(self):
        sys.setprofile(self._prof)
        return self

    def __exit__(self, *a):
        sys.setprofile(None)
