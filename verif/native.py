"""Pipeline for the generated C / C++: real parser -> real generator -> scratch dir -> clang-14 IR -> llsym."""
from __future__ import annotations

import os
import shutil
import subprocess
import tempfile

from .common import add_repo_paths, VERIF
from .fromfcp import parse

CLANG = os.environ.get("VERIF_CLANG", "clang-14")
CLANGXX = os.environ.get("VERIF_CLANGXX", "clang++-14")


class Scratch:
    """Scratch directory outside /repo and /verif, removed on exit."""

    def __enter__(self):
        self.d = tempfile.mkdtemp(prefix="verif_native_")
        return self.d

    def __exit__(self, *a):
        shutil.rmtree(self.d, ignore_errors=True)


def run(cmd, cwd=None, timeout=600, env=None):
    try:
        p = subprocess.run(cmd, cwd=cwd, capture_output=True, text=True, timeout=timeout,
                           env=dict(os.environ, **env) if env else None)
    except subprocess.TimeoutExpired:
        return -999, "", f"timed out after {timeout}s"
    return p.returncode, p.stdout, p.stderr


def generate_c(text: str, outdir: str):
    """Real fcp_can_c generator -> files in outdir. Returns list of file names."""
    add_repo_paths()
    import fcp_can_c

    fcp = parse(text)
    os.makedirs(outdir, exist_ok=True)
    names = []
    for r in fcp_can_c.Generator().generate(fcp, {"output": outdir}):
        p = str(r["path"])
        with open(p, "w") as f:
            f.write(str(r["contents"]))
        names.append(os.path.basename(p))
    return fcp, names


def c_to_ir(outdir: str, sources, opt="-O0", extra=()):
    """Compile each C source to textual IR; returns (ok, [ll paths] | error text)."""
    lls = []
    for src in sources:
        ll = os.path.join(outdir, os.path.splitext(src)[0] + (".O0" if opt == "-O0" else ".O1") + ".ll")
        rc, out, err = run([CLANG, "-S", "-emit-llvm", opt, "-Wall", "-Wno-unused", "-I", outdir, *extra, src, "-o", ll],
                           cwd=outdir)
        if rc != 0:
            return False, err[-1500:]
        lls.append(ll)
    return True, lls


def load_ir(paths):
    from . import llsym

    mod = llsym.Mod()
    for p in paths:
        llsym.parse_module(open(p).read(), mod)
    return mod


def snake(pascal: str) -> str:
    """pascal_to_snake of the generator, re-stated (names of generated functions)."""
    return "".join(["_" + c.lower() if c.isupper() else c for c in pascal]).lstrip("_")
