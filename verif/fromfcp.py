"""Bridges between shapes.Schema and the repository's objects (real parser in, shapes out)."""
from __future__ import annotations

from .shapes import Schema


def parse(text: str):
    """Real front end: text -> FcpV2 (raises on Err)."""
    from fcp.parser import get_fcp_from_string
    from fcp.error import Logger

    r = get_fcp_from_string(text, Logger({}))
    if r.is_err():
        raise ValueError("front end rejected generated schema: %r\n%s" % (r.err(), text))
    return r.unwrap()


def type_from_fcp(t):
    from fcp.specs import type as T

    if isinstance(t, T.UnsignedType):
        return ("u", int(t.name[1:]))
    if isinstance(t, T.SignedType):
        return ("i", int(t.name[1:]))
    if isinstance(t, T.FloatType):
        return ("f32",)
    if isinstance(t, T.DoubleType):
        return ("f64",)
    if isinstance(t, T.StringType):
        return ("str",)
    if isinstance(t, T.EnumType):
        return ("enum", t.name)
    if isinstance(t, T.StructType):
        return ("struct", t.name)
    if isinstance(t, T.ArrayType):
        return ("arr", type_from_fcp(t.underlying_type), t.size)
    if isinstance(t, T.DynamicArrayType):
        return ("dyn", type_from_fcp(t.underlying_type))
    if isinstance(t, T.OptionalType):
        return ("opt", type_from_fcp(t.underlying_type))
    raise ValueError(t)


def schema_from_fcp(fcp, top=None) -> Schema:
    structs = [(s.name, [(f.name, f.field_id, type_from_fcp(f.type)) for f in s.fields]) for s in fcp.structs]
    enums = {e.name: [(x.name, x.value) for x in e.enumeration] for e in fcp.enums}
    return Schema(structs=structs, enums=enums, top=top or (structs[-1][0] if structs else "S"))


def schema_from_fcp_text(text: str, top=None) -> Schema:
    return schema_from_fcp(parse(text), top)
