"""Replay a counterexample file against the real, unstubbed code.

exit 1 = the violation reproduces; exit 0 = it does not; exit 2 = the replay itself failed."""
from __future__ import annotations

import json
import sys
import traceback


def main():
    path = sys.argv[1]
    d = json.load(open(path))
    if "--primed" in sys.argv[2:]:
        d["_primed"] = True
    from .common import add_repo_paths

    add_repo_paths()
    from . import replayers

    fn = getattr(replayers, "replay_" + d["kind"], None)
    if fn is None:
        print("no replayer for kind", d["kind"])
        sys.exit(2)
    try:
        reproduced, text = fn(d)
    except Exception:
        traceback.print_exc()
        sys.exit(2)
    if reproduced and d.get("_primed"):
        text = "after the history priming of this check (a same-named but different schema / an earlier call in the same process): " + text
    print(("REPRODUCED: " if reproduced else "not reproduced: ") + text)
    sys.exit(1 if reproduced else 0)


if __name__ == "__main__":
    main()
