"""Concrete replays, one per counterexample kind.  Only plain calls of the real code, no stubs."""
from __future__ import annotations

from .shapes import Schema
from .values import from_json, values_equal


def _schema(d) -> Schema:
    s = d["schema"]
    structs = [(n, [(f[0], f[1], _tt(f[2])) for f in fs]) for n, fs in s["structs"]]
    enums = {k: [tuple(x) for x in v] for k, v in s["enums"].items()}
    return Schema(structs=structs, enums=enums, top=s["top"])


def _tt(t):
    return tuple(_tt(x) if isinstance(x, list) else x for x in t)


def _fcp(d):
    from fcp.parser import get_fcp_from_string
    from fcp.error import Logger

    return get_fcp_from_string(d["schema_text"], Logger({})).unwrap()


def replay_serde_roundtrip(d):
    from fcp import serde

    sch = _schema(d)
    fcp = _fcp(d)
    v = from_json(d["value"])
    try:
        enc = serde.encode(fcp, d["top"], v)
        dec = serde.decode(fcp, d["top"], enc)
    except Exception as e:
        return True, f"round trip of {v!r} raised {type(e).__name__}: {e}"
    if not values_equal(sch, ("struct", d["top"]), v, dec):
        return True, f"decode(encode({v!r})) = {dec!r} (bytes {list(enc)})"
    return False, f"round trip of {v!r} ok"


def replay_serde_encode(d):
    """encode(v) must equal the canonical bytes (given in the file, computed by refspec for this v)."""
    from fcp import serde

    fcp = _fcp(d)
    v = from_json(d["value"])
    exp = bytes(d["expected_bytes"])
    try:
        enc = bytes(serde.encode(fcp, d["top"], v))
    except Exception as e:
        return True, f"encode({v!r}) raised {type(e).__name__}: {e}; canonical bytes {list(exp)}"
    if enc != exp:
        return True, f"encode({v!r}) = {list(enc)} but canonical bytes are {list(exp)}"
    return False, "encode matches canonical bytes"


def replay_serde_decode(d):
    """decode(canonical bytes of v) must return v."""
    from fcp import serde

    sch = _schema(d)
    fcp = _fcp(d)
    v = from_json(d["value"])
    data = bytearray(d["canonical_bytes"])
    try:
        dec = serde.decode(fcp, d["top"], data)
    except Exception as e:
        return True, f"decode({list(data)}) raised {type(e).__name__}: {e}; expected {v!r}"
    if not values_equal(sch, ("struct", d["top"]), v, dec):
        return True, f"decode({list(data)}) = {dec!r}, expected {v!r}"
    return False, "decode of canonical bytes ok"


def replay_serde_truncated(d):
    """decode(data) must raise; returning a value (or exceeding the work bound) reproduces the violation."""
    import time

    from fcp import serde

    fcp = _fcp(d)
    data = bytearray(d["data"])
    t = time.time()
    try:
        dec = serde.decode(fcp, d["top"], data)
    except Exception as e:
        dt = time.time() - t
        if d.get("work_bound") and dt > d.get("max_seconds", 2.0):
            return True, f"decode({list(data)[:24]}..) raised only after {dt:.1f}s: work not bounded by input length"
        return False, f"raised {type(e).__name__}"
    return True, f"decode({list(data)}) returned {dec!r} instead of raising ({d.get('why', '')})"


def replay_layout(d):
    """Real PackedEncoder on the concrete schema (from a stale encoder state) vs. the reference tiling."""
    from fcp.encoding import make_encoder, PackedEncoderContext

    from .layoutref import leaf_list

    sch = _schema(d)
    fcp = _fcp(d)
    impl = [i for i in fcp.impls if i.protocol == "can"][0]
    enc = make_encoder("packed", fcp, PackedEncoderContext().with_unroll_arrays(d["unroll"]))
    enc.bitstart = d.get("pre_bitstart", 0)
    enc.encoding = ["<stale>"]
    try:
        out = enc.generate(impl)
    except Exception as e:
        return True, f"generate raised {type(e).__name__}: {e}"
    ref = leaf_list(sch, d["top"], d["unroll"])
    got = [(str(v.name), v.bitstart, v.bitlength) for v in out]
    pos, exp = 0, []
    for hn, bn, t, w in ref:
        exp.append((hn, pos, w))
        pos += w
    if got != exp:
        return True, f"layout {got} != reference {exp}"
    sigs = {s: kv for s, kv in d.get("signals", [])}
    for v, (hn, bn, t, w) in zip(out, ref):
        e = sigs.get(hn.split("::")[-1], {})
        if dict(v.extended_data) != e or v.endianess != (e.get("endianess") or "little"):
            return True, f"options of leaf {hn}: {v.extended_data}/{v.endianess}, expected {e}"
    return False, "layout equals the reference tiling"


def replay_verifier(d):
    """Real verifier on the concrete tree vs. the specification evaluated on the same concrete tree."""
    import importlib

    import z3

    from .checks import verifier_checks as vc
    from .pysym import AtomSpace

    class CS:
        def __init__(self):
            AtomSpace()

        def A(self, n):
            return d["names"][n]

        def I(self, n, lo, hi):
            return d["ints"][n]

    desc = vc.permute(vc.skeletons("quick")[d["skeleton"]](CS()), d["perm"])
    spec = z3.is_true(z3.simplify(vc.SPECS[d["plugin"]](desc)))
    from fcp.verifier import make_general_verifier

    v = make_general_verifier()
    if vc.PLUGINS[d["plugin"]]:
        importlib.import_module(vc.PLUGINS[d["plugin"]]).Generator().register_checks(v)
    try:
        ok = v.verify(vc.build(desc)).is_ok()
    except Exception as e:
        return True, f"verify raised {type(e).__name__}: {e} (specification: {'well' if spec else 'ill'}-formed) tree={desc}"
    if ok != spec:
        return True, f"verify -> {'Ok' if ok else 'Err'}, specification -> {'well' if spec else 'ill'}-formed; tree={desc}"
    return False, f"verdict {ok} equals specification"
