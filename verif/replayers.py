"""Concrete replays, one per counterexample kind.  Only plain calls of the real code, no stubs."""
from __future__ import annotations

from .shapes import Schema
from .values import from_json, values_equal


def _schema(d) -> Schema:
    s = d["schema"]
    structs = [(n, [(f[0], f[1], _tt(f[2])) for f in fs]) for n, fs in s["structs"]]
    enums = {k: [tuple(x) for x in v] for k, v in s["enums"].items()}
    return Schema(structs=structs, enums=enums, top=s["top"])


def _tt(t):
    return tuple(_tt(x) if isinstance(x, list) else x for x in t)


def _fcp(d):
    from fcp.parser import get_fcp_from_string
    from fcp.error import Logger

    return get_fcp_from_string(d["schema_text"], Logger({})).unwrap()


def _with_decoy(fn):
    """In a --primed replay the codec is first exercised on the same-named decoy schema (state that survives across
    schemas), then the counterexample runs."""
    def wrapped(d):
        if d.get("_primed") and d.get("decoy_text"):
            from .prime import prime
            prime(d["decoy_text"], ("serde", "layout"))
        return fn(d)
    wrapped.__name__ = fn.__name__
    return wrapped


def replay_serde_roundtrip(d):
    from fcp import serde

    sch = _schema(d)
    fcp = _fcp(d)
    v = from_json(d["value"])
    try:
        enc = serde.encode(fcp, d["top"], v)
        dec = serde.decode(fcp, d["top"], enc)
    except Exception as e:
        return True, f"round trip of {v!r} raised {type(e).__name__}: {e}"
    if not values_equal(sch, ("struct", d["top"]), v, dec):
        return True, f"decode(encode({v!r})) = {dec!r} (bytes {list(enc)})"
    return False, f"round trip of {v!r} ok"


def replay_serde_encode(d):
    """encode(v) must equal the canonical bytes (given in the file, computed by refspec for this v)."""
    from fcp import serde

    fcp = _fcp(d)
    v = from_json(d["value"])
    exp = bytes(d["expected_bytes"])
    try:
        enc = bytes(serde.encode(fcp, d["top"], v))
    except Exception as e:
        return True, f"encode({v!r}) raised {type(e).__name__}: {e}; canonical bytes {list(exp)}"
    if enc != exp:
        return True, f"encode({v!r}) = {list(enc)} but canonical bytes are {list(exp)}"
    return False, "encode matches canonical bytes"


def replay_serde_decode(d):
    """decode(canonical bytes of v) must return v."""
    from fcp import serde

    sch = _schema(d)
    fcp = _fcp(d)
    v = from_json(d["value"])
    data = bytearray(d["canonical_bytes"])
    try:
        dec = serde.decode(fcp, d["top"], data)
    except Exception as e:
        return True, f"decode({list(data)}) raised {type(e).__name__}: {e}; expected {v!r}"
    if not values_equal(sch, ("struct", d["top"]), v, dec):
        return True, f"decode({list(data)}) = {dec!r}, expected {v!r}"
    return False, "decode of canonical bytes ok"


def replay_serde_truncated(d):
    """decode(data) must raise; returning a value (or exceeding the work bound) reproduces the violation.

    Work-bound replays run under a 2 GiB address-space limit: an allocation proportional to a length prefix then
    fails fast with MemoryError, which counts as 'work not bounded by the input length'."""
    import time

    from fcp import serde

    fcp = _fcp(d)
    data = bytearray(d["data"])
    if d.get("_after_full") and d.get("full") is not None:
        for prior in (bytearray(d["full"]), bytearray([0] * (len(d["full"]) + 4))):
            try:
                serde.decode(fcp, d["top"], prior)      # an earlier, longer message in the same process
            except Exception:
                pass
    if d.get("work_bound"):
        try:
            import resource
            resource.setrlimit(resource.RLIMIT_AS, (2 << 30, 2 << 30))
        except Exception:
            pass
    t = time.time()
    try:
        dec = serde.decode(fcp, d["top"], data)
    except MemoryError:
        return True, f"decode({list(data)[:24]}) ran out of memory: work/allocation proportional to a length prefix, not to the input"
    except Exception as e:
        dt = time.time() - t
        if d.get("work_bound") and dt > d.get("max_seconds", 2.0):
            return True, f"decode({list(data)[:24]}..) raised only after {dt:.1f}s: work not bounded by input length"
        return False, f"raised {type(e).__name__}"
    return True, f"decode({list(data)}) returned {dec!r} instead of raising ({d.get('why', '')})"


def replay_layout(d):
    """Real PackedEncoder on the concrete schema (from a stale encoder state) vs. the reference tiling."""
    from fcp.encoding import make_encoder, PackedEncoderContext, Value
    from fcp.specs.type import UnsignedType

    from .layoutref import leaf_list

    sch = _schema(d)
    fcp = _fcp(d)
    impl = [i for i in fcp.impls if i.protocol == "can"][0]
    enc = make_encoder("packed", fcp, PackedEncoderContext().with_unroll_arrays(d["unroll"]))
    from .checks.layout_checks import _set_pre_state
    _set_pre_state(enc, d.get("pre_bitstart", 0), [Value("stale_piece_of_an_earlier_generate", UnsignedType("u8"), 0, 8)])
    try:
        out = enc.generate(impl)
    except Exception as e:
        return True, f"generate raised {type(e).__name__}: {e}"
    ref = leaf_list(sch, d["top"], d["unroll"])
    got = [(str(v.name), v.bitstart, v.bitlength) for v in out]
    pos, exp = 0, []
    for hn, bn, t, w in ref:
        exp.append((hn, pos, w))
        pos += w
    import re
    norm = lambda n: re.sub(r"[^0-9A-Za-z]+", "_", n)
    if [(norm(a), b, c) for a, b, c in got] != [(norm(a), b, c) for a, b, c in exp] or len({g[0] for g in got}) != len(got):
        return True, f"layout {got} != reference {exp}"
    sigs = {s: kv for s, kv in d.get("signals", [])}
    for v, (hn, bn, t, w) in zip(out, ref):
        leafname = hn.split("::")[-1]
        own = sigs.get(leafname) if leafname == bn else None
        allowed = [{}]
        if own is not None:
            allowed = [own] if "::" not in hn else [own, {}]
        elif bn in sigs:
            allowed = [sigs[bn], {}]
        if not any(dict(v.extended_data) == a and v.endianess == (a.get("endianess") or "little") for a in allowed):
            return True, f"options of leaf {hn}: {v.extended_data}/{v.endianess}, allowed {allowed}"
    dflt = [i for i in fcp.impls if i.protocol == "default" and i.type == impl.type][0]
    pc = lambda v: (str(v.name), v.bitstart, v.bitlength, v.endianess, dict(v.extended_data))
    again = [pc(v) for v in enc.generate(dflt)]
    fresh = [pc(v) for v in make_encoder("packed", fcp, PackedEncoderContext().with_unroll_arrays(d["unroll"])).generate(dflt)]
    if again != fresh:
        return True, f"reused encoder lays the default binding out as {again[:3]}.., a fresh one as {fresh[:3]}.."
    first = [pc(v) for v in out]
    second = [pc(v) for v in enc.generate(impl)]
    third = [pc(v) for v in make_encoder("packed", fcp, PackedEncoderContext().with_unroll_arrays(d["unroll"])).generate(impl)]
    if not d.get("pre_bitstart") and (second != first or third != first):
        k = next(i for i, (a, b, c) in enumerate(zip(first, second, third)) if a != b or a != c) if len(first) == len(second) == len(third) else 0
        return True, (f"laying the binding out again changes the answer: first {first[k:k + 1]}, again {second[k:k + 1]}, "
                      f"new encoder {third[k:k + 1]}")
    return False, "layout equals the reference tiling"


def replay_verifier(d):
    """Real verifier on the concrete tree vs. the specification evaluated on the same concrete tree."""
    import importlib

    import z3

    from .checks import verifier_checks as vc
    from .pysym import AtomSpace

    class CS:
        def __init__(self):
            AtomSpace()

        def A(self, n):
            return d["names"][n]

        def I(self, n, lo, hi):
            return d["ints"][n]

    desc = vc.permute(vc.skeletons("thorough")[d["skeleton"]](CS()), d["perm"])
    spec = z3.is_true(z3.simplify(vc.SPECS[d["plugin"]](desc)))
    from fcp.verifier import make_general_verifier

    if d["skeleton"] in vc.DECOY_FIRST and d.get("_primed"):
        v0 = make_general_verifier()
        if vc.PLUGINS[d["plugin"]]:
            importlib.import_module(vc.PLUGINS[d["plugin"]]).Generator().register_checks(v0)
        try:
            v0.verify(vc.build(vc.decoy_desc(desc)))
        except Exception:
            pass
    v = make_general_verifier()
    if vc.PLUGINS[d["plugin"]]:
        importlib.import_module(vc.PLUGINS[d["plugin"]]).Generator().register_checks(v)
    try:
        ok = v.verify(vc.build(desc)).is_ok()
    except Exception as e:
        return True, f"verify raised {type(e).__name__}: {e} (specification: {'well' if spec else 'ill'}-formed) tree={desc}"
    if ok != spec:
        return True, f"verify -> {'Ok' if ok else 'Err'}, specification -> {'well' if spec else 'ill'}-formed; tree={desc}"
    return False, f"verdict {ok} equals specification"


replay_serde_roundtrip = _with_decoy(replay_serde_roundtrip)
replay_serde_encode = _with_decoy(replay_serde_encode)
replay_serde_decode = _with_decoy(replay_serde_decode)
def _after_full(fn):
    def wrapped(d):
        if d.get("_primed") and d.get("full") is not None:
            return fn(dict(d, _after_full=True))
        return fn(d)
    return wrapped


replay_serde_truncated = _after_full(_with_decoy(replay_serde_truncated))


def _fcp_text(text):
    from fcp.parser import get_fcp_from_string
    from fcp.error import Logger

    return get_fcp_from_string(text, Logger({})).unwrap()


def replay_serde_permuted(d):
    """encode with the schema and with its declaration-permuted twin must give the same (canonical) bytes."""
    from fcp import serde

    fa, fb = _fcp_text(d["schema_text"]), _fcp_text(d["twin_text"])
    v = from_json(d["value"])
    try:
        a = bytes(serde.encode(fa, d["top"], v))
        b = bytes(serde.encode(fb, d["top"], v))
    except Exception as e:
        return True, f"encode raised {type(e).__name__}: {e}"
    if a != b:
        return True, f"encode({v!r}) = {list(a)} with the schema, {list(b)} with its declaration-permuted twin"
    sch = _schema(d)
    da = serde.decode(fa, d["top"], bytearray(a))
    db = serde.decode(fb, d["top"], bytearray(a))
    if not values_equal(sch, ("struct", d["top"]), da, db):
        return True, f"{list(a)} decodes to {da!r} with the schema and to {db!r} with its twin"
    return False, "same bytes and same decoding for both declaration orders"


def _layout_of(text):
    from fcp.encoding import make_encoder, PackedEncoderContext

    f = _fcp_text(text)
    impl = [i for i in f.impls if i.protocol == "can"][0]
    enc = make_encoder("packed", f, PackedEncoderContext().with_unroll_arrays(True))
    return [(str(v.name), v.bitstart, v.bitlength) for v in enc.generate(impl)]


def replay_permuted_layout(d):
    a, b = _layout_of(d["schema_text"]), _layout_of(d["twin_text"])
    if a != b:
        return True, f"layout {a} vs twin {b}"
    return False, "same layout"


def replay_permuted_dbc(d):
    import fcp_dbc

    ta = fcp_dbc.Generator().generate(_fcp_text(d["schema_text"]), {"output": "out"})
    tb = fcp_dbc.Generator().generate(_fcp_text(d["twin_text"]), {"output": "out"})
    sa = [(r["bus"], r["contents"]) for r in ta]
    sb = [(r["bus"], r["contents"]) for r in tb]
    if sa != sb:
        la, lb = sa[0][1].splitlines(), sb[0][1].splitlines()
        diff = [(x, y) for x, y in zip(la, lb) if x != y][:3]
        return True, f"DBC text differs, e.g. {diff}"
    return False, "same DBC"


# ---------------------------------------------------------------- parser / imports
def _materialize(files, names):
    import os
    import re
    import tempfile

    import atexit
    import shutil

    d = tempfile.mkdtemp(prefix="verif_replay_")
    atexit.register(shutil.rmtree, d, ignore_errors=True)     # a replay is its own ordinary process: atexit runs
    for rel, text in files.items():
        text = re.sub(r"\b[NR]\d+\b", lambda m: names.get(m.group(0), m.group(0)), text)
        p = os.path.join(d, rel)
        os.makedirs(os.path.dirname(p), exist_ok=True)
        open(p, "w").write(text)
    return d


def _get(path):
    from fcp.parser import get_fcp

    return get_fcp(path)      # the public entry point with its default logger, as in the symbolic run


def _leaf_type(t):
    while hasattr(t, "underlying_type"):
        t = t.underlying_type
    return t


def replay_parser_refs(d):
    return _replay_parser_refs(d, prime=bool(d.get("_primed")))


def _replay_parser_refs(d, prime):
    import os
    import shutil

    names = d["names"]
    if prime:
        import re as _re
        dfiles = {}
        for rel, text in d["files"].items():
            if rel != "main.fcp":
                text = _re.sub(r"enum (\w+) \{[^}]*\}", lambda m: "struct %s { zz @0: u8, }" % m.group(1), text)
            dfiles[rel] = text
        droot = _materialize(dfiles, names)
        try:
            _get(os.path.join(droot, "main.fcp"))      # another project with equally named module files
        except Exception:
            pass
        finally:
            shutil.rmtree(droot, ignore_errors=True)
        pn = dict(names)
        for k, (vis, _, _) in d["refs"].items():
            if vis:
                pn[k] = names[vis[0]]
        proot = _materialize(d["files"], pn)
        try:
            _get(os.path.join(proot, "main.fcp"))
        except Exception:
            pass
        finally:
            shutil.rmtree(proot, ignore_errors=True)
    root = _materialize(d["files"], names)
    try:
        try:
            r = _get(os.path.join(root, "main.fcp"))
        except Exception as e:
            return True, f"get_fcp raised {type(e).__name__}: {e}"
        decls, refs = d["decls"], d["refs"]
        resolv = {k: [x for x in vis if names[x] == names[k]] for k, (vis, _, _) in refs.items()}
        expect_ok = all(resolv[k] for k in refs)
        if r.is_ok() != expect_ok:
            return True, (f"parser returned {'Ok' if r.is_ok() else 'Err: ' + repr(r.err())[:120]} but "
                          f"{'every reference names an earlier declaration' if expect_ok else 'some reference names nothing declared before its use'}; names={names}")
        if r.is_ok():
            fcp = r.unwrap()
            for k, (vis, encl, fname) in refs.items():
                st = fcp.get_struct(names[encl]).unwrap()
                lt = _leaf_type([f for f in st.fields if f.name == fname][0].type)
                want = "StructType" if decls[resolv[k][0]] == "struct" else "EnumType"
                if type(lt).__name__ != want or fcp.get_type(lt).is_nothing():
                    return True, f"reference {names[k]} in {names[encl]}.{fname} tagged {type(lt).__name__}, expected {want}"
        else:
            text = " | ".join(str(m[0]) for m in r.err().msg)
            ok = any((not resolv[k]) and names[k] in text and names[refs[k][1]] in text for k in refs)
            if not ok:
                return True, f"error does not name the unresolved type and its struct: {text[:200]}"
        return False, "parser verdict matches the declare-before-use rule"
    finally:
        shutil.rmtree(root, ignore_errors=True)


def _cmp_dict(fcp):
    d = fcp.to_dict()

    def norm(x):
        if isinstance(x, dict):
            return tuple(sorted((k, norm(v)) for k, v in x.items()))
        if isinstance(x, list):
            return tuple(norm(v) for v in x)
        return x
    return {k: sorted((norm(e) for e in d.get(k, [])), key=repr) for k in ("structs", "enums", "impls", "services", "devices")}


def replay_parser_split(d):
    import os
    import shutil

    files = dict(d["split_files"])
    files["single.fcp"] = d["single_text"]
    root = _materialize(files, d["names"])
    try:
        try:
            a, b = _get(os.path.join(root, "main.fcp")), _get(os.path.join(root, "single.fcp"))
        except Exception as e:
            return True, f"get_fcp raised {type(e).__name__}: {e}"
        if a.is_ok() != b.is_ok():
            return True, f"split: {'Ok' if a.is_ok() else repr(a.err())[:100]}; single file: {'Ok' if b.is_ok() else repr(b.err())[:100]}"
        if not a.is_ok():
            return False, "both rejected"
        da, db = _cmp_dict(a.unwrap()), _cmp_dict(b.unwrap())
        diff = {k: (len(da[k]), len(db[k])) for k in da if da[k] != db[k]}
        if diff:
            return True, f"split schema differs from the single-file schema in {diff} (counts split, single)"
        return False, "split schema equals the single-file schema"
    finally:
        shutil.rmtree(root, ignore_errors=True)


def replay_parser_import_error(d):
    import os
    import pathlib
    import shutil

    root = _materialize(d["files"], d["names"])
    try:
        try:
            r = _get(os.path.join(root, "main.fcp"))
        except Exception as e:
            return True, f"get_fcp raised {type(e).__name__}: {e}"
        if r.is_ok():
            if d["error_kind"] == "resolve":
                return False, "reference happened to resolve"
            return True, f"{d['error_kind']} error in module {d['module']} not reported: Ok returned"
        for msg, node, _ in r.err().msg:
            fn = getattr(getattr(node, "meta", None), "filename", None)
            if d["module"] in str(msg) or (fn is not None and pathlib.PurePosixPath(str(fn)).name == d["module"]):
                return False, "error names the module"
        return True, f"error does not name module {d['module']}: {[str(m[0])[:80] for m in r.err().msg]}"
    finally:
        shutil.rmtree(root, ignore_errors=True)


def replay_merge(d):
    from fcp.specs.v2 import FcpV2

    cats = ("structs", "enums", "impls", "services", "devices")
    a, b = FcpV2(), FcpV2()
    exp = {}
    for ci, c in enumerate(cats):
        xa = [f"{c}_a{i}" for i in range(d["la"][ci])]
        xb = [f"{c}_b{i}" for i in range(d["lb"][ci])]
        a.__dict__[c] = list(xa)
        b.__dict__[c] = list(xb)
        exp[c] = xa + xb
    a.merge(b)
    bad = {c: (getattr(a, c), exp[c]) for c in cats if getattr(a, c) != exp[c]}
    if bad:
        return True, f"merge result {bad} (got, expected importer ++ imported)"
    return False, "merge concatenates every category"


def replay_reflection_source(d):
    from .checks import reflection_checks as rc

    fcp = _fcp_text(rc.TEMPLATES[d["template"]])
    bad = rc.source_mismatch(d["template"], fcp)
    if bad:
        return True, bad
    return False, "the tree holds the bindings' extension fields and signal blocks as written in the source"


def replay_reflection_after_rpc(d):
    from .checks import reflection_checks as rc

    bad = rc.after_rpc_mismatch(d["template"], _fcp_text)
    if bad:
        return True, bad
    return False, "reflection() lists what the tree holds after generate_rpc"


def replay_reflection(d):
    """Real reflection() + encode/decode on the template tree with the concrete leaves of the counterexample."""
    from fcp import serde
    from fcp.reflection import get_reflection_schema

    from .checks import reflection_checks as rc
    from .fromfcp import schema_from_fcp

    asg = {}
    for k, v in d["assignment"].items():
        if isinstance(v, dict) and "__float__" in v:
            asg[k] = (v["__float__"], v["bits"])
        else:
            asg[k] = v
    if d.get("_primed"):
        from .prime import prime
        prime(rc.COLLIDING, ("serde", "layout"))
    fcp = _fcp_text(rc.TEMPLATES[d["template"]])
    declared = rc.declared_of(fcp)
    if d.get("_primed"):
        rc.same_object_history(fcp)
    rc.Patcher(asg=asg).patch(fcp)
    rfcp = get_reflection_schema().unwrap()
    rsch = schema_from_fcp(rfcp, top="Fcp")
    T = ("struct", "Fcp")
    try:
        fcp.reflection()
        rec = fcp.reflection()
    except Exception as e:
        return True, f"reflection() raised {type(e).__name__}: {e}"
    exp = rc.reference_record(fcp, declared)
    if not values_equal(rsch, T, rec, exp):
        return True, f"reflection record differs from the declared schema: {_first_diff(rec, exp)}"
    try:
        dec = serde.decode(rfcp, "Fcp", serde.encode(rfcp, "Fcp", rec))
    except Exception as e:
        return True, f"serialising the reflection record raised {type(e).__name__}: {e}"
    if not values_equal(rsch, T, rec, dec):
        return True, f"decode(encode(record)) differs: {_first_diff(rec, dec)}"
    return False, "reflection is faithful and lossless"


def _first_diff(a, b, path=""):
    if isinstance(a, dict) and isinstance(b, dict):
        for k in list(a) + [k for k in b if k not in a]:
            if k not in a or k not in b:
                return f"{path}.{k}: key only on one side"
            r = _first_diff(a[k], b[k], f"{path}.{k}")
            if r:
                return r
        return None
    if isinstance(a, list) and isinstance(b, list):
        if len(a) != len(b):
            return f"{path}: lengths {len(a)} vs {len(b)}"
        for i, (x, y) in enumerate(zip(a, b)):
            r = _first_diff(x, y, f"{path}[{i}]")
            if r:
                return r
        return None
    if a != b and not (a != a and b != b):
        return f"{path}: {a!r} vs {b!r}"
    return None


def replay_gating(d):
    """Stub plug-in with the concrete verdict table, real file system (temp dir), unstubbed fcp.codegen."""
    import os
    import shutil
    import sys
    import tempfile

    from .common import VERIF
    from .checks.gating_checks import SCHEMA, _snapshot

    stubs = os.path.join(VERIF, "verif", "stubs")
    if stubs not in sys.path:
        sys.path.insert(0, stubs)
    import fcp_vstub
    from fcp.codegen import GeneratorManager
    from fcp.verifier import make_general_verifier

    fcp = _fcp_text(SCHEMA)
    out = tempfile.mkdtemp(prefix="verif_c10_")
    try:
        open(os.path.join(out, "keep.txt"), "w").write("pre-existing")
        recs = [{"type": t, "path": os.path.join(out, f"gen{i}.txt"), "contents": f"contents {i}"}
                for i, t in enumerate(d["record_types"])]
        for rec, pre in zip(recs, d.get("pre_existing") or []):
            if pre and pre.get("exists"):
                stale = ("x" * len(rec["contents"])) if pre.get("same_size") else "stale"
                open(rec["path"], "w").write(stale)
        table = d["verdicts"]
        if d.get("history"):
            if d.get("history") == 3:
                fcp_vstub.CONFIG.update({"checks": ["struct", "impl"], "records": [], "calls": [],
                                         "verdict": lambda ci, cat, k: k == 0 and ci == 0})
            else:
                fcp_vstub.CONFIG.update({"checks": [], "records": [], "calls": [], "verdict": lambda ci, cat, k: True})
            gm0 = GeneratorManager(make_general_verifier())
            gm0.generate("vstub", None, None, fcp, out)
            if d.get("history") == 2:
                gm0 = None      # the checked call uses a fresh manager/verifier pair
        else:
            gm0 = None
        fcp_vstub.CONFIG.update({"checks": d["checks"], "records": recs, "calls": [],
                                 "epoch": fcp_vstub.CONFIG.get("epoch", 0) + 1,
                                 "verdict": lambda ci, cat, k: table.get(f"{ci}/{k}", True)})
        before = _snapshot(out)
        try:
            if d.get("entry") == "cli":
                import contextlib
                import io
                from .checks.gating_checks import _schema_file, _CliOutcome
                from fcp import __main__ as cli
                srcdir, schema_path = _schema_file()
                buf = io.StringIO()
                try:
                    with contextlib.redirect_stdout(buf):
                        cli.generate_cmd.callback("vstub", schema_path, out, None, None)
                finally:
                    shutil.rmtree(srcdir, ignore_errors=True)
                shown = [ln for ln in buf.getvalue().splitlines()
                         if ln.strip() and ln.strip() not in {rec["contents"] for rec in recs}]
                r = _CliOutcome(shown)
            else:
                r = (gm0 or GeneratorManager(make_general_verifier())).generate("vstub", None, None, fcp, out)
        except Exception as e:
            return True, f"generate raised {type(e).__name__}: {e}"
        after = _snapshot(out)
        calls = fcp_vstub.CONFIG["calls"]
        rejected = any(not table.get(f"{c[0]}/{c[1]}", True) for c in calls if c != "generate")
        if rejected:
            if after != before or "generate" in calls or not (hasattr(r, "is_err") and r.is_err()):
                return True, f"a check rejected the schema but result={r!r}, directory changed={after != before}, generator ran={'generate' in calls}"
            return False, "rejected: error returned, nothing written"
        from .checks.gating_checks import NODES
        expected = {(ci, k) for ci, cat in enumerate(d["checks"]) for k in range(NODES[cat])}
        missing = expected - {c for c in calls if c != "generate"}
        if missing:
            return True, f"generation went ahead although registered checks were never consulted: {sorted(missing)[:4]}"
        exp = dict(before)
        for rec in recs:
            if rec["type"] == "file":
                exp[os.path.relpath(rec["path"], out)] = rec["contents"].encode()
        if not (hasattr(r, "is_ok") and r.is_ok()) or after != exp:
            return True, f"all checks passed but result={r!r}, files={sorted(after)} expected={sorted(exp)}"
        return False, "accepted: exactly the returned file records were written"
    finally:
        shutil.rmtree(out, ignore_errors=True)


def replay_gating_real(d):
    from .checks.gating_checks import real_plugin_run
    import json

    if d.get("entry") == "cli":
        from .checks.gating_checks import real_cli_run
        p, before, after, said = real_cli_run(d["generator"], d["schema_text"])
        if not d["expect_ok"]:
            if before != after:
                return True, f"`fcp generate` on a rejected schema changed the output directory: {sorted(set(after) ^ set(before))[:4]}"
            if not said:
                return True, "`fcp generate` on a rejected schema reported no error"
            return False, "rejected: error printed, nothing written"
        if after == before and d["generator"] != "nop":
            return True, f"`fcp generate` on a well-formed schema wrote nothing: {said[-200:]}"
        return False, "accepted"
    p, before, after = real_plugin_run(d["generator"], d["schema_text"], d["expect_ok"])
    try:
        st = json.loads((p.stdout.strip().splitlines() or ["{}"])[-1])
    except Exception:
        st = {}
    if not d["expect_ok"]:
        if before != after:
            return True, f"rejected schema but the output directory changed: {sorted(set(after) ^ set(before))[:4]}"
        if st.get("ok"):
            return True, "rejected schema but generate returned Ok"
        return False, "rejected: nothing written"
    if not st.get("ok"):
        return True, f"well-formed schema but generate did not return Ok: {st} {p.stderr[-200:]}"
    return False, "accepted"


# ---------------------------------------------------------------- DBC
def replay_dbc_tv(d):
    """Regenerate the DBC with the real generator, read it with cantools AND with the own reader, and compare every
    signal with the real packed layout; if a witness frame is given decode it through cantools as well."""
    import cantools
    import fcp_dbc
    from fcp.encoding import make_encoder, PackedEncoderContext

    from .dbcref import read_dbc

    fcp = _fcp_text(d["schema_text"])
    files = fcp_dbc.Generator().generate(fcp, {"output": "out"})
    enc = make_encoder("packed", fcp, PackedEncoderContext().with_unroll_arrays(True))
    problems = []
    for impl in [i for i in fcp.impls if i.protocol == "can"]:
        bus = impl.fields.get("bus", "default")
        f = [x for x in files if x["bus"] == bus]
        if not f:
            problems.append(f"no file for bus {bus}")
            continue
        db = cantools.database.load_string(f[0]["contents"], database_format="dbc")
        own = read_dbc(f[0]["contents"])
        # the layout of a binding does not depend on what an encoder laid out before (C04): a fresh encoder per binding
        lay = make_encoder("packed", fcp, PackedEncoderContext().with_unroll_arrays(True)).generate(impl)
        bits = lay[-1].bitstart + lay[-1].bitlength
        try:
            msg = db.get_message_by_frame_id(impl.fields["id"])
        except KeyError:
            problems.append(f"no message with id {impl.fields['id']} on bus {bus}")
            continue
        if bool(msg.is_extended_frame) != (impl.fields["id"] > 0x7FF):
            problems.append(f"message {msg.name}: id {impl.fields['id']} is marked "
                            f"{'extended (29-bit)' if msg.is_extended_frame else 'standard (11-bit)'} in the DBC")
            continue
        if msg.name != impl.name or msg.length != (bits + 7) // 8 or len(msg.signals) != len(lay):
            problems.append(f"message {msg.name}: dlc {msg.length}, {len(msg.signals)} signals; expected {impl.name}, "
                            f"{(bits + 7) // 8}, {len(lay)}")
            continue
        frame = d.get("frame")
        for v in lay:
            name = str(v.name).replace("::", "_")
            try:
                sg = msg.get_signal_by_name(name)
            except KeyError:
                problems.append(f"no signal {name}")
                continue
            kind = type(v.type).__name__
            endian = v.extended_data.get("endianess") or "little"
            exp_start = v.bitstart + 7 if endian == "big" and v.bitlength > 8 else (v.bitstart + 7 if endian == "big" else v.bitstart)
            is_float = bool(getattr(sg, "is_float", False) or getattr(getattr(sg, "conversion", None), "is_float", False))
            if sg.length != v.bitlength or sg.is_signed != (kind == "SignedType") or \
                    sg.byte_order != ("big_endian" if endian == "big" else "little_endian") or \
                    is_float != (kind in ("FloatType", "DoubleType")) or (sg.unit or None) != (v.unit or None) or \
                    sg.start != exp_start:
                problems.append(f"signal {name}: start {sg.start} len {sg.length} signed {sg.is_signed} float {is_float} "
                                f"{sg.byte_order} unit {sg.unit!r}; layout leaf: bitstart {v.bitstart} len {v.bitlength} "
                                f"{kind} {endian} unit {v.unit!r}")
            mc = v.extended_data.get("mux_count")
            ids = sorted(sg.multiplexer_ids or [])
            if (mc is None and ids) or (mc is not None and ids != list(range(mc))):
                problems.append(f"signal {name}: multiplexer ids {ids}, schema mux_count {mc}")
            if name in own["messages"].get(msg.frame_id, {}).get("signals", {}):
                o = own["messages"][msg.frame_id]["signals"][name]
                if (o["start"], o["length"]) != (sg.start, sg.length):
                    problems.append(f"own reader and cantools disagree on {name}")
        extra = [m.frame_id for m in db.messages if m.frame_id not in
                 [i.fields["id"] for i in fcp.impls if i.protocol == "can" and i.fields.get("bus", "default") == bus]]
        if extra:
            problems.append(f"bus {bus} contains foreign messages {extra}")
    if problems:
        return True, "; ".join(problems[:4])
    return False, "DBC matches the layout"


def replay_dbc_symbolic_layout(d):
    """_make_signals with real cantools classes on the concrete tiling."""
    from fcp_dbc.dbc_writer import _make_signals

    class T:
        def __init__(self, s):
            self.s = s

        def is_signed(self):
            return self.s

    class P:
        pass

    pieces, pos = [], 0
    n = len(d["lengths"])
    for i, L in enumerate(d["lengths"]):
        p = P()
        p.name, p.bitstart, p.bitlength, p.endianess = f"p{i}", pos, L, d["endians"][i]
        p.type, p.unit = T(d["signed"][i]), f"unit{i}"
        p.extended_data = {"mux_count": d["mux_count"], "mux_signal": "p0"} if d["muxed"] and i == n - 1 else {}
        pieces.append(p)
        pos += L
    try:
        sigs, dlc = _make_signals(pieces, "T")
    except Exception as e:
        if pos > 64:
            return False, "oversize layout rejected"
        return True, f"_make_signals raised {type(e).__name__}: {e} for a {pos}-bit layout"
    if pos > 64:
        return True, f"a {pos}-bit layout was turned into a DBC message"
    bad = []
    if dlc != (pos + 7) // 8:
        bad.append(f"dlc {dlc} for {pos} bits")
    for i, (s, p) in enumerate(zip(sigs, pieces)):
        es = p.bitstart + 7 if p.endianess == "big" else p.bitstart
        if (s.start, s.length, s.is_signed, s.unit) != (es, p.bitlength, p.type.s, p.unit):
            bad.append(f"signal {i}: {(s.start, s.length, s.is_signed, s.unit)} expected {(es, p.bitlength, p.type.s, p.unit)}")
        exp_ids = list(range(d["mux_count"])) if (d["muxed"] and i == n - 1) else None
        if (list(s.multiplexer_ids) if s.multiplexer_ids is not None else None) != exp_ids:
            bad.append(f"signal {i}: multiplexer ids {s.multiplexer_ids} expected {exp_ids}")
        if bool(s.is_multiplexer) != (d["muxed"] and i == 0):
            bad.append(f"signal {i}: is_multiplexer {s.is_multiplexer}")
    if bad:
        return True, "; ".join(bad[:3])
    return False, "signal table matches"


def replay_dbc_oversize(d):
    import cantools
    import fcp_dbc
    from fcp.encoding import make_encoder, PackedEncoderContext

    fcp = _fcp_text(d["schema_text"])
    impl = [i for i in fcp.impls if i.protocol == "can"][0]
    lay = make_encoder("packed", fcp, PackedEncoderContext().with_unroll_arrays(True)).generate(impl)
    bits = lay[-1].bitstart + lay[-1].bitlength
    try:
        files = fcp_dbc.Generator().generate(fcp, {"output": "out"})
    except Exception as e:
        if bits > 64:
            return False, "oversize rejected"
        return True, f"DBC generation raised {type(e).__name__}: {e} for a {bits}-bit message"
    if bits > 64:
        return True, f"a {bits}-bit CAN binding got a DBC message"
    db = cantools.database.load_string(files[0]["contents"], database_format="dbc", strict=False)
    msg = db.messages[0]
    rng = sorted((s.start, s.start + s.length) for s in msg.signals if s.byte_order == "little_endian")
    for (a0, a1), (b0, b1) in zip(rng, rng[1:]):
        if a1 > b0:
            return True, f"signals overlap: {rng}"
    if rng and rng[-1][1] > 8 * msg.length:
        return True, f"signal beyond the message: {rng} dlc {msg.length}"
    return False, "fits"


def replay_c14_concrete(d):
    import json

    from .checks.gating_checks import real_plugin_run

    p, before, after = real_plugin_run(d["generator"], d["schema_text"], d["fits"], warmup=bool(d.get("warmup")),
                                       warmup_text=d.get("warmup_text"))
    try:
        st = json.loads((p.stdout.strip().splitlines() or ["{}"])[-1])
    except Exception:
        st = {"ok": False}
    if not d["fits"]:
        if st.get("ok"):
            return True, f"'{d['generator']}' generation succeeded"
        if before != after:
            return True, f"failed but changed the output directory: {sorted(set(after) ^ set(before))[:3]}"
        return False, "rejected, nothing written"
    if not st.get("ok"):
        return True, f"generation failed for a fitting binding: {p.stderr[-200:]}"
    return False, "generated"


# ---------------------------------------------------------------- generated C, natively
def _native_c(schema_text, main_src, compilers=("clang-14", "gcc")):
    """Generate with the real generator, compile natively with each compiler, run; -> [(compiler, rc, stdout, stderr)]"""
    import os

    from .native import Scratch, generate_c, run

    outs = []
    with Scratch() as d:
        fcp, names = generate_c(schema_text, d)
        open(os.path.join(d, "main.c"), "w").write(main_src)
        srcs = [n for n in names if n.endswith(".c")] + ["main.c"]
        for cc in compilers:
            rc, so, se = run([cc, "-O0", "-w", "-I", d, *srcs, "-o", os.path.join(d, "a.out")], cwd=d)
            if rc != 0:
                outs.append((cc, "compile-error", so, se[-800:]))
                continue
            rc, so, se = run([os.path.join(d, "a.out")], cwd=d, timeout=60)
            outs.append((cc, rc, so, se))
    return outs


def replay_c_compile(d):
    try:
        outs = _native_c(d["schema_text"], '#include "ecu_can.h"\nint main(void) { return 0; }\n')
    except Exception as e:
        return True, f"C generation failed: {type(e).__name__}: {e}"
    bad = [o for o in outs if o[1] == "compile-error"]
    if bad:
        return True, f"generated C does not compile ({bad[0][0]}): {bad[0][3][-300:]}"
    return False, "compiles"


def replay_c_compile_sources(d):
    """Every .c file the generator emits is compiled to an object file as emitted (no harness), clang and gcc."""
    import os

    from .native import Scratch, generate_c, run

    with Scratch() as dd:
        try:
            fcp, names = generate_c(d["schema_text"], dd)
        except Exception as e:
            return True, f"C generation failed: {type(e).__name__}: {e}"
        for cc in ("clang-14", "gcc"):
            for n in names:
                if not n.endswith(".c"):
                    continue
                rc, so, se = run([cc, "-O0", "-w", "-I", dd, "-c", n, "-o", os.path.join(dd, "o.o")], cwd=dd)
                if rc != 0:
                    return True, f"{cc}: {n} does not compile (files: {sorted(names)}): {se[-300:]}"
    return False, "every generated source compiles"


def replay_c_encode(d):
    from .native import snake

    P, s = d["top"], snake(d["top"])
    sets = []
    for fn, x in d["fields"].items():
        K = d["carriers"][fn]
        if d["kinds"][fn] in ("f32", "f64"):
            ty = "uint32_t" if K == 32 else "uint64_t"
            sets.append(f"  {{ {ty} raw = {x}ULL; memcpy(&m.{fn}, &raw, sizeof raw); }}")
        else:
            ty = {8: "uint8_t", 16: "uint16_t", 32: "uint32_t", 64: "uint64_t"}[K]
            sets.append(f"  {{ {ty} raw = ({ty}){x}ULL; memcpy(&m.{fn}, &raw, sizeof raw); }}")
    main = ('#include <stdio.h>\n#include <string.h>\n#include "ecu_can.h"\nint main(void) {\n'
            f"  CanMsg{P} m; memset(&m, 0, sizeof m);\n" + "\n".join(sets) +
            f"\n  CanFrame f = can_encode_msg_{s}(&m);\n  unsigned long long w; memcpy(&w, f.data, 8);\n"
            '  printf("%u %u %llu\\n", (unsigned)f.id, (unsigned)f.dlc, w);\n  return 0;\n}\n')
    outs = _native_c(d["schema_text"], main)
    e = d["expected"]
    want = f"{e['id']} {e['dlc']} {e['data']}"
    bad = [(cc, so.strip() or se[-200:]) for cc, rc, so, se in outs if so.strip() != want]
    if bad:
        return True, f"fields {d['fields']}: native frame (id dlc data) = {bad[0][1]} with {bad[0][0]}, layout packing says {want}"
    return False, "native frame equals the layout packing"


def replay_c_decode(d):
    import struct as _s

    from .native import snake

    P, s = d["top"], snake(d["top"])
    fr = d["frame"]
    prints = []
    for fn in d["fields"]:
        k = d["kinds"][fn]
        if k == "f32":
            prints.append(f'  {{ uint32_t r; memcpy(&r, &m.{fn}, 4); printf("{fn} %llu\\n", (unsigned long long)r); }}')
        elif k == "f64":
            prints.append(f'  {{ uint64_t r; memcpy(&r, &m.{fn}, 8); printf("{fn} %llu\\n", (unsigned long long)r); }}')
        else:
            prints.append(f'  printf("{fn} %lld\\n", (long long)m.{fn});')
    main = ('#include <stdio.h>\n#include <string.h>\n#include "ecu_can.h"\nint main(void) {\n'
            "  unsigned char raw[10] = {" + ",".join(str(b) for b in fr) + "};\n"
            f"  CanFrame f; memset(&f, 0, sizeof f); memcpy(&f, raw, 10);\n  CanMsg{P} m = can_decode_msg_{s}(&f);\n" +
            "\n".join(prints) + "\n  return 0;\n}\n")
    outs = _native_c(d["schema_text"], main)
    word = int.from_bytes(bytes(fr[2:10]), "little")
    exp = {}
    for fn in d["fields"]:
        k, off = d["kinds"][fn], d["offsets"][fn]
        if k == "f32":
            exp[fn] = ("f", (word >> off) & 0xFFFFFFFF, 32)
        elif k == "f64":
            exp[fn] = ("f", (word >> off) & (2 ** 64 - 1), 64)
        else:
            w = d["widths"][fn]
            v = (word >> off) & ((1 << w) - 1)
            if k == "i" and v >> (w - 1):
                v -= 1 << w
            exp[fn] = ("i", v, w)
    for cc, rc, so, se in outs:
        if rc == "compile-error":
            return True, f"does not compile with {cc}: {se[-200:]}"
        got = dict(l.split() for l in so.strip().splitlines() if l.strip())
        for fn, (kind, v, w) in exp.items():
            g = int(got.get(fn, "0"))
            if kind == "i":
                if g != v:
                    return True, f"frame {fr}: {cc} decodes {fn} = {g}, layout extraction gives {v}"
            else:
                fmt = "<f" if w == 32 else "<d"
                a = _s.unpack(fmt, g.to_bytes(w // 8, "little"))[0]
                b = _s.unpack(fmt, v.to_bytes(w // 8, "little"))[0]
                if b == b and a != b:
                    return True, f"frame {fr}: {cc} decodes {fn} = {a!r}, layout extraction gives {b!r}"
    return False, "native decode equals the layout extraction"


def replay_c_sched(d):
    """Native run of the generated scheduler from the given static state (set through a patched copy of the source
    is not possible for function-local statics, so 'step' mode replays from the initial state only when reachable:
    the state is re-created by a prefix of calls when it equals the initial one; otherwise the reference automaton is
    compared on the BMC trace)."""
    n = len(d["periods"])
    per = d["periods"]
    devb = d["dev_bytes"]
    if d["mode"] == "step" and (d["last_call"] != 0 or any(d["last_send"])):
        # reach the state: call with time = last_send values in increasing order is not general; use a helper that
        # pokes the statics through a one-off exported setter appended to a COPY of the generated file
        setter = True
    else:
        setter = False
    times = d["times"]
    main = ['#include <stdio.h>', '#include <string.h>', '#include "ecu_can.h"',
            'static void cb(const CanFrame *f) { const unsigned char *p = (const unsigned char *)f; printf("F");'
            ' for (int i = 0; i < 10; i++) printf(" %u", p[i]); printf("\\n"); }',
            'extern void verif_poke(unsigned lc, const unsigned *ls);',
            'int main(void) {', '  CanDeviceEcu dev; unsigned char raw[] = {' + ",".join(map(str, devb)) + '};',
            '  memcpy(&dev, raw, sizeof dev);']
    if setter:
        main.append('  unsigned ls[] = {' + ",".join(map(str, d["last_send"])) + '};')
        main.append(f'  verif_poke({d["last_call"]}u, ls);')
    for t in times:
        main.append(f'  printf("T\\n"); can_send_ecu_msgs_scheduled(&dev, {t}u, cb);')
    main += ['  return 0;', '}']
    import os

    from .native import Scratch, generate_c, run

    results = []
    with Scratch() as dd:
        fcp, names = generate_c(d["schema_text"], dd)
        src = open(os.path.join(dd, "ecu_can.c")).read()
        # expose the function-local statics to the replay: make them file-scope in a copy (same code otherwise)
        src2 = src.replace("    static uint32_t last_call_t = 0;\n", "").replace(
            f"    static uint32_t last_send_t[{n}] = {{0}};\n", "")
        if src2 == src:
            return None, "could not hoist the scheduler statics for replay"
        src2 = src2.replace('#include "can_signal_parser.h"\n',
                            '#include "can_signal_parser.h"\nstatic uint32_t last_call_t = 0;\n'
                            f'static uint32_t last_send_t[{n}] = {{0}};\n'
                            f'void verif_poke(unsigned lc, const unsigned *ls) {{ last_call_t = lc; for (int i = 0; i < {n}; i++) last_send_t[i] = ls[i]; }}\n', 1)
        open(os.path.join(dd, "ecu_can.c"), "w").write(src2)
        open(os.path.join(dd, "main.c"), "w").write("\n".join(main))
        srcs = [x for x in names if x.endswith(".c")] + ["main.c"]
        for cc in ("clang-14", "gcc"):
            rc, so, se = run([cc, "-O0", "-w", "-I", dd, *srcs, "-o", os.path.join(dd, "a.out")], cwd=dd)
            if rc:
                return None, f"replay build failed: {se[-300:]}"
            rc, so, se = run([os.path.join(dd, "a.out")], cwd=dd, timeout=60)
            results.append((cc, so))
    # reference automaton, concretely
    lc, ls = d["last_call"], list(d["last_send"])
    ids = [16 + i for i in range(n)]
    exp = []
    for t in times:
        sent = []
        if t != lc:
            lc = t
            for i in range(n):
                if per[i] != -1 and ((t - ls[i]) & 0xFFFFFFFF) >= (per[i] & 0xFFFFFFFF):
                    sent.append(ids[i])
                    ls[i] = t
        exp.append(sent)
    for cc, so in results:
        got, cur = [], None
        for line in so.splitlines():
            if line == "T":
                cur = []
                got.append(cur)
            elif line.startswith("F") and cur is not None:
                b = [int(x) for x in line.split()[1:]]
                cur.append((b[0] | (b[1] << 8)) & 0x7FF)
        if got != exp:
            return True, f"{cc}: frames sent per call {got}, reference automaton {exp} (state {d['last_call']},{d['last_send']} times {times})"
    return False, "scheduler follows the reference automaton"


# ---------------------------------------------------------------- generated C++, natively
_CXX_MAIN = r'''
#include <cstdio>
#include <cstdlib>
#include <cstring>
extern "C" unsigned long enc(const unsigned char* args, unsigned char* out);
extern "C" unsigned long dec(const unsigned char* in, unsigned long n, unsigned char* area);
int main(int argc, char** argv) {
    static unsigned char in[65536], out[65536];
    unsigned long n = 0;
    for (const char* p = argv[2]; p[0] && p[1]; p += 2) { unsigned v; sscanf(p, "%2x", &v); in[n++] = (unsigned char)v; }
    unsigned long m = argv[1][0] == 'e' ? enc(in, out) : dec(in, n, out);
    for (unsigned long i = 0; i < m; i++) printf("%02x", out[i]);
    printf("\n");
    return 0;
}
'''


def _native_cxx(d, mode, inbytes, compilers=("clang++-14", "g++")):
    import os

    from . import cxx
    from .native import Scratch, run

    sch = _schema(d)
    outs = []
    with Scratch() as dd:
        cxx.generate_cpp(d["schema_text"], dd)
        open(os.path.join(dd, "harness.cpp"), "w").write(cxx.harness_source(sch))
        open(os.path.join(dd, "main.cpp"), "w").write(_CXX_MAIN)
        for cc in compilers:
            rc, so, se = run([cc, "-std=c++17", "-O1", "-w", "-I", dd, "-I", cxx.THIRD_PARTY, "harness.cpp", "main.cpp",
                              "-o", os.path.join(dd, "a.out")], cwd=dd, timeout=900)
            if rc:
                outs.append((cc, "compile-error", se[-600:]))
                continue
            hexin = "".join(f"{b:02x}" for b in inbytes) or "00"
            rc, so, se = run([os.path.join(dd, "a.out"), mode, hexin if inbytes else ""], cwd=dd, timeout=60)
            outs.append((cc, rc, so.strip() if rc == 0 else f"crashed rc={rc} {se[-200:]}"))
    return outs


def replay_cpp_compile(d):
    outs = _native_cxx(d, "e", [0] * 64)
    bad = [o for o in outs if o[1] == "compile-error"]
    if bad:
        return True, f"generated C++ does not compile with {bad[0][0]}: {bad[0][2][-300:]}"
    return False, "compiles"


def replay_cpp_encode(d):
    from . import cxx

    sch = _schema(d)
    area = []
    v = d["value"]

    def conv(x):
        if isinstance(x, dict) and "__float__" in x:
            return (x["__float__"], x["bits"])
        if isinstance(x, dict):
            return {k: conv(y) for k, y in x.items()}
        if isinstance(x, list):
            return [conv(y) for y in x]
        return x
    import z3

    def tofp(x):
        return x
    val = conv(v)

    def floats_to_bv(t, x):
        k = t[0]
        if k in ("f32", "f64"):
            return z3.BitVecVal(x[1], 32 if k == "f32" else 64)
        if k in ("arr", "dyn"):
            return [floats_to_bv(t[1], y) for y in x]
        if k == "opt":
            return None if x is None else floats_to_bv(t[1], x)
        if k == "struct":
            return {fn: floats_to_bv(ft, x[fn]) for fn, _, ft in sch.struct(t[1])}
        return x
    cxx.marshal(sch, ("struct", d["top"]), floats_to_bv(("struct", d["top"]), val), area)
    outs = _native_cxx(d, "e", area)
    want = "".join(f"{b:02x}" for b in d["expected_bytes"])
    for cc, rc, so in outs:
        if rc == "compile-error":
            return True, f"does not compile with {cc}: {so[-200:]}"
        if so != want:
            return True, f"{cc}: Encode({v}) = {so}, canonical bytes {want}"
    return False, "Encode gives the canonical bytes"


def replay_cpp_decode(d):
    outs = _native_cxx(d, "d", d["bytes"])
    want = "".join(f"{b:02x}" for b in d["expected_area"])
    for cc, rc, so in outs:
        if rc == "compile-error":
            return True, f"does not compile with {cc}: {so[-200:]}"
        if so != want:
            return True, f"{cc}: Decode({d['bytes']}) dumps {so}, reference decoding {want}"
    return False, "Decode gives the reference value"


_CAN_MAIN = r"""
#include <cstdio>
#include <cstring>
#include <memory>
#include "can.h"
#include "fcp.h"
#include "can_static_schema.h"
using json = nlohmann::json;
static void __attribute__((noinline)) dirty() { volatile unsigned char a[8192]; for (unsigned i = 0; i < sizeof a; i++) a[i] = 0xAA; }
int main(int argc, char** argv) {
    fcp::can::Can can{std::make_shared<fcp::can::CanStaticSchema>(fcp::can::CanStaticSchema{})};
    try {
        if (argv[1][0] == 'e') {
            json j = json::parse(argv[3]);
            dirty();
            auto f = can.Encode(argv[2], j);
            if (!f.has_value()) { printf("nullopt\n"); return 0; }
            unsigned char out[15]; std::memcpy(out, f->bus.data(), 4); std::memcpy(out + 4, &f->sid, 2); out[6] = f->dlc;
            std::memcpy(out + 7, f->data.data(), 8);
            for (int i = 0; i < 15; i++) printf("%02x", out[i]);
            printf("\n");
        } else {
            unsigned char in[15];
            for (int i = 0; i < 15; i++) { unsigned v; sscanf(argv[2] + 2 * i, "%2x", &v); in[i] = (unsigned char)v; }
            fcp::can::frame_t f; std::memcpy(f.bus.data(), in, 4); std::memcpy(&f.sid, in + 4, 2); f.dlc = in[6];
            std::memcpy(f.data.data(), in + 7, 8);
            if (argc > 3) {   // an earlier frame on the same Can object
                unsigned char in0[15];
                for (int i = 0; i < 15; i++) { unsigned v; sscanf(argv[3] + 2 * i, "%2x", &v); in0[i] = (unsigned char)v; }
                fcp::can::frame_t g; std::memcpy(g.bus.data(), in0, 4); std::memcpy(&g.sid, in0 + 4, 2); g.dlc = in0[6];
                std::memcpy(g.data.data(), in0 + 7, 8);
                try { (void)can.Decode(g); } catch (...) {}
            }
            auto r = can.Decode(f);
            if (!r.has_value()) { printf("nullopt\n"); return 0; }
            printf("%s %s\n", r->first.c_str(), r->second.dump().c_str());
        }
    } catch (const std::exception& e) { printf("exception %s\n", e.what()); }
    return 0;
}
"""


def _native_can(d, argv, compilers=("clang++-14", "g++")):
    """Builds the generated CAN wrapper with a small main that goes through fcp::can::Can and real JSON."""
    import os

    from . import cxx
    from .native import Scratch, run

    outs = []
    with Scratch() as dd:
        if d.get("_primed") and d.get("decoy_text"):
            from .prime import prime
            prime(d["decoy_text"], ("cpp",))
        cxx.generate_cpp(d["schema_text"], dd)
        open(os.path.join(dd, "main.cpp"), "w").write(_CAN_MAIN)
        for cc in compilers:
            rc, so, se = run([cc, "-std=c++17", "-O1", "-w", "-I", dd, "-I", cxx.THIRD_PARTY, "main.cpp",
                              "-o", os.path.join(dd, "a.out")], cwd=dd, timeout=900)
            if rc:
                outs.append((cc, "compile-error", se[-600:]))
                continue
            if argv is None:
                outs.append((cc, 0, ""))
                continue
            rc, so, se = run([os.path.join(dd, "a.out")] + argv, cwd=dd, timeout=60)
            outs.append((cc, rc, so.strip() if rc == 0 else f"crashed rc={rc} {se[-200:]}"))
    return outs


def replay_can_compile(d):
    outs = _native_can(d, None)
    bad = [o for o in outs if o[1] == "compile-error"]
    if bad:
        return True, f"generated CAN wrapper does not compile with {bad[0][0]}: {bad[0][2][-300:]}"
    return False, "compiles"


def replay_can_encode(d):
    import json as _json

    e = d["expected"]
    n = len(e["data"])
    want = "".join(f"{b:02x}" for b in e["bus"] + [e["sid"] & 0xFF, e["sid"] >> 8, n] + e["data"])
    for cc, rc, so in _native_can(d, ["e", d["name"], _json.dumps(d["value"])]):
        if rc == "compile-error":
            return True, f"does not compile with {cc}: {so[-200:]}"
        if so[:len(want)] != want or len(so) != 30:
            return True, (f"{cc}: Can::Encode({d['name']!r}, {_json.dumps(d['value'])}) = {so} (bus[4] sid[2] dlc data[8]); "
                          f"expected bus {bytes(e['bus'])!r}, id {e['sid']}, dlc {n}, data {bytes(e['data']).hex()}")
    return False, "frame carries the binding's bus, id, size and canonical bytes"


def replay_can_decode(d):
    import json as _json

    e = d["expected"]
    hexin = "".join(f"{b:02x}" for b in d["frame"])
    argv = ["d", hexin]
    if d.get("first_frame") and d.get("_primed"):
        argv.append("".join(f"{b:02x}" for b in d["first_frame"]))
    for cc, rc, so in _native_can(d, argv):
        if rc == "compile-error":
            return True, f"does not compile with {cc}: {so[-200:]}"
        if e["name"] is None:
            if so != "nullopt":
                return True, f"{cc}: Can::Decode(frame {hexin}) = {so}, but (id, bus) matches no binding"
            continue
        if so == "nullopt" or so.startswith(("exception", "crashed")):
            return True, f"{cc}: Can::Decode(frame {hexin}) = {so}, expected {e['name']} {_json.dumps(e['value'])}"
        name, _, js = so.partition(" ")
        try:
            val = _json.loads(js)
        except ValueError:
            return True, f"{cc}: Can::Decode(frame {hexin}) = {so}"
        if name != e["name"] or val != e["value"]:
            return True, f"{cc}: Can::Decode(frame {hexin}) = {so}, expected {e['name']} {_json.dumps(e['value'])}"
    return False, "decodes to the binding's name and the original value" if e["name"] else "reported as unknown"


_DYN_MAIN = r"""
#include <cstdio>
#include <cstring>
#include <exception>
extern "C" void* dyn_load(const char* bin, unsigned long n);
extern "C" long dyn_enc(void* sp, const unsigned char* args, unsigned char* out);
extern "C" long sta_enc(const unsigned char* args, unsigned char* out);
extern "C" long dyn_dec(void* sp, const unsigned char* in, unsigned long n, unsigned char* area);
extern "C" long sta_dec(const unsigned char* in, unsigned long n, unsigned char* area);
static unsigned long unhex(const char* p, unsigned char* o) { unsigned long n = 0; for (; p[0] && p[1]; p += 2) { unsigned v; sscanf(p, "%2x", &v); o[n++] = (unsigned char)v; } return n; }
static void show(const char* tag, long n, const unsigned char* o) { printf("%s=", tag); if (n < 0) printf("nullopt"); else for (long i = 0; i < n; i++) printf("%02x", o[i]); printf("\n"); }
int main(int argc, char** argv) {
    static unsigned char bin[1 << 20], in[65536], o1[65536], o2[65536];
    unsigned long nb = unhex(argv[2], bin), n = argc > 3 ? unhex(argv[3], in) : 0;
    void* sp = 0;
    try { sp = dyn_load((const char*)bin, nb); } catch (const std::exception& e) { printf("load=throws %s\n", e.what()); return 0; }
    printf("load=ok\n");
    if (argv[1][0] == 'l') return 0;
    long a = -2, b = -2;
    try { a = argv[1][0] == 'e' ? sta_enc(in, o1) : sta_dec(in, n, o1); show("sta", a, o1); } catch (const std::exception& e) { printf("sta=throws\n"); }
    try { b = argv[1][0] == 'e' ? dyn_enc(sp, in, o2) : dyn_dec(sp, in, n, o2); show("dyn", b, o2); } catch (const std::exception& e) { printf("dyn=throws\n"); }
    return 0;
}
"""


def _native_dyn(d, mode, inbytes, compilers=("clang++-14", "g++")):
    """The C13 harness TU compiled natively: both codecs through their JSON entry points, real nlohmann::json, real libstdc++."""
    import os

    from . import cxx
    from .native import Scratch, run

    sch = _schema(d)
    outs = []
    with Scratch() as dd:
        if d.get("_primed") and d.get("decoy_text"):
            from .prime import prime
            prime(d["decoy_text"], ("cpp",))
        fcp = cxx.generate_cpp(d["schema_text"], dd)
        binhex = cxx.reflection_binary(fcp).hex()
        open(os.path.join(dd, "harness.cpp"), "w").write(cxx.dyn_harness_source(sch))
        open(os.path.join(dd, "main.cpp"), "w").write(_DYN_MAIN)
        for cc in compilers:
            rc, so, se = run([cc, "-std=c++17", "-O1", "-w", "-I", dd, "-I", cxx.THIRD_PARTY, "harness.cpp", "main.cpp",
                              "-o", os.path.join(dd, "a.out")], cwd=dd, timeout=900)
            if rc:
                outs.append((cc, "compile-error", se[-600:]))
                continue
            rc, so, se = run([os.path.join(dd, "a.out"), mode, binhex, "".join(f"{b:02x}" for b in inbytes)], cwd=dd, timeout=60)
            outs.append((cc, rc, so.strip() if rc == 0 else f"crashed rc={rc} {se[-200:]}"))
    return outs


def replay_dyn_compile(d):
    for cc, rc, so in _native_dyn(d, "l", []):
        if rc == "compile-error":
            return True, f"generated run-time codec does not compile with {cc}: {so[-300:]}"
        if "load=ok" not in so:
            return True, f"{cc}: LoadBinarySchema on the tool's reflection binary: {so[-200:]}"
    return False, "compiles and loads"


def _dyn_compare(d, mode, inbytes, what):
    for cc, rc, so in _native_dyn(d, mode, inbytes):
        if rc == "compile-error":
            return True, f"does not compile with {cc}: {so[-200:]}"
        lines = dict(l.split("=", 1) for l in so.splitlines() if "=" in l)
        if lines.get("load") != "ok":
            return True, f"{cc}: {so[-200:]}"
        if rc != 0 or "sta" not in lines or "dyn" not in lines:
            return True, f"{cc}: {so[-300:]}"
        if lines["sta"] != lines["dyn"]:
            return True, f"{cc}: {what}: static {lines['sta']} != dynamic {lines['dyn']}"
    return False, "static and dynamic agree"


def replay_dyn_encode(d):
    import json as _json

    return _dyn_compare(d, "e", d["area"], f"EncodeJson({_json.dumps(d['value'])})")


def replay_dyn_decode(d):
    return _dyn_compare(d, "d", d["bytes"], f"DecodeJson(bytes {bytes(d['bytes']).hex()}) dumped as flat area")


_CAN_DYN_MAIN = r"""
#include <cstdio>
#include <cstring>
#include <exception>
extern "C" void* dyn_load(const char* bin, unsigned long n);
extern "C" int xcan_enc(void* sp, int which, const unsigned char* args, unsigned char* out);
extern "C" long xcan_dec(void* sp, const unsigned char* in, char* name_out, unsigned char* area, long* area_n);
static unsigned long unhex(const char* p, unsigned char* o) { unsigned long n = 0; for (; p[0] && p[1]; p += 2) { unsigned v; sscanf(p, "%2x", &v); o[n++] = (unsigned char)v; } return n; }
static void __attribute__((noinline)) dirty() { volatile unsigned char a[8192]; for (unsigned i = 0; i < sizeof a; i++) a[i] = 0xAA; }
int main(int argc, char** argv) {
    static unsigned char bin[1 << 20], in[65536];
    unsigned long nb = unhex(argv[2], bin); unhex(argv[4], in);
    int which = atoi(argv[3]);
    void* sp = 0;
    try { sp = dyn_load((const char*)bin, nb); } catch (const std::exception& e) { printf("load=throws %s\n", e.what()); return 0; }
    printf("load=ok\n");
    for (int side = 0; side < 2; side++) {
        const char* tag = side ? "dyn" : "sta";
        try {
            if (argv[1][0] == 'e') {
                unsigned char out[16]; std::memset(out, 0, sizeof out); dirty();
                int r = xcan_enc(side ? sp : 0, which, in, out);
                printf("%s=", tag); if (!r) printf("nullopt"); else for (int i = 0; i < 7 + (out[6] > 8 ? 8 : out[6]); i++) printf("%02x", out[i]); printf("\n");
            } else {
                char name[256]; unsigned char area[4096]; long an = 0; std::memset(name, 0, sizeof name);
                long r = xcan_dec(side ? sp : 0, in, name, area, &an);
                printf("%s=", tag); if (r < 0) printf("unknown"); else { printf("%s:", name); if (argv[1][0] == 'd') for (long i = 0; i < an; i++) printf("%02x", area[i]); } printf("\n");
            }
        } catch (const std::exception& e) { printf("%s=throws\n", tag); }
    }
    return 0;
}
"""


def _native_can_dyn(d, mode, which, inbytes, compilers=("clang++-14", "g++")):
    import os

    from . import cxx
    from .native import Scratch, run

    sch = _schema(d)
    sch.impls = []
    outs = []
    with Scratch() as dd:
        if d.get("_primed") and d.get("decoy_text"):
            from .prime import prime
            prime(d["decoy_text"], ("cpp",))
        fcp = cxx.generate_cpp(d["schema_text"], dd)
        binhex = cxx.reflection_binary(fcp).hex()
        open(os.path.join(dd, "harness.cpp"), "w").write(cxx.can_dyn_harness_source(sch, d["structs"]))
        open(os.path.join(dd, "main.cpp"), "w").write("#include <cstdlib>\n" + _CAN_DYN_MAIN)
        if d.get("sanitize"):
            compilers = ("clang++-14",)
        for cc in compilers:
            flags = (["-O0", "-g", "-fsanitize=address,undefined", "-fno-sanitize-recover=all", "-fno-omit-frame-pointer"]
                     if d.get("sanitize") else ["-O1"])
            rc, so, se = run([cc, "-std=c++17", *flags, "-w", "-I", dd, "-I", cxx.THIRD_PARTY, "harness.cpp", "main.cpp",
                              "-o", os.path.join(dd, "a.out")], cwd=dd, timeout=900)
            if rc:
                outs.append((cc, "compile-error", se[-600:]))
                continue
            rc, so, se = run([os.path.join(dd, "a.out"), mode, binhex, str(which), "".join(f"{b:02x}" for b in inbytes) or "00"], cwd=dd, timeout=120,
                             env={"ASAN_OPTIONS": "detect_leaks=0", "UBSAN_OPTIONS": "print_stacktrace=0"})
            if d.get("sanitize") and rc:
                se = " ".join(l for l in se.splitlines() if "ERROR" in l or "SUMMARY" in l or "runtime error" in l)[:400] or se
            outs.append((cc, rc, so.strip() if rc == 0 else f"crashed rc={rc} {se[-200:]}"))
    return outs


def _can_dyn_compare(outs, what):
    for cc, rc, so in outs:
        if rc == "compile-error":
            return True, f"does not compile with {cc}: {so[-200:]}"
        lines = dict(l.split("=", 1) for l in so.splitlines() if "=" in l)
        if lines.get("load") != "ok" or rc != 0 or "sta" not in lines or "dyn" not in lines:
            return True, f"{cc}: {so[-300:]}"
        if lines["sta"] != lines["dyn"]:
            return True, f"{cc}: {what}: static {lines['sta']} != reflection-loaded {lines['dyn']}"
    return False, "static and reflection-loaded CAN schemas agree"


def replay_can_dyn_encode(d):
    import json as _json

    return _can_dyn_compare(_native_can_dyn(d, "e", d["which"], d["area"]),
                            f"Can::Encode({d['structs'][d['which']]!r}, {_json.dumps(d['value'])}) as bus[4] sid[2] dlc data[dlc]")


def replay_can_dyn_decode(d):
    return _can_dyn_compare(_native_can_dyn(d, "n" if d.get("names_only") else "d", 0, d["frame"]),
                            f"Can::Decode(frame {bytes(d['frame']).hex()})")


_JSON_MAIN = r"""
#include <cstdio>
#include <exception>
extern "C" long sta_enc(const unsigned char* args, unsigned char* out);
extern "C" long sta_dec(const unsigned char* in, unsigned long n, unsigned char* area);
int main(int argc, char** argv) {
    static unsigned char in[65536], out[65536];
    unsigned long n = 0;
    for (const char* p = argv[2]; p[0] && p[1]; p += 2) { unsigned v; sscanf(p, "%2x", &v); in[n++] = (unsigned char)v; }
    try {
        long m = argv[1][0] == 'e' ? sta_enc(in, out) : sta_dec(in, n, out);
        if (m < 0) { printf("nullopt\n"); return 0; }
        for (long i = 0; i < m; i++) printf("%02x", out[i]);
        printf("\n");
    } catch (const std::exception& e) { printf("throws %s\n", e.what()); }
    return 0;
}
"""


def replay_cpp_json(d):
    """StaticSchema::EncodeJson / DecodeJson through the JSON harness TU, compiled natively."""
    import os

    from . import cxx
    from .native import Scratch, run

    sch = _schema(d)
    want = "".join(f"{b:02x}" for b in d["expected"])
    with Scratch() as dd:
        if d.get("_primed") and d.get("decoy_text"):
            from .prime import prime
            prime(d["decoy_text"], ("cpp",))
        cxx.generate_cpp(d["schema_text"], dd)
        open(os.path.join(dd, "harness.cpp"), "w").write(cxx.dyn_harness_source(sch, dynamic=False))
        open(os.path.join(dd, "main.cpp"), "w").write(_JSON_MAIN)
        for cc in ("clang++-14", "g++"):
            rc, so, se = run([cc, "-std=c++17", "-O1", "-w", "-I", dd, "-I", cxx.THIRD_PARTY, "harness.cpp", "main.cpp",
                              "-o", os.path.join(dd, "a.out")], cwd=dd, timeout=900)
            if rc:
                return True, f"does not compile with {cc}: {se[-300:]}"
            rc, so, se = run([os.path.join(dd, "a.out"), d["direction"][0], "".join(f"{b:02x}" for b in d["input"]) or "00"], cwd=dd, timeout=60)
            got = so.strip() if rc == 0 else f"crashed rc={rc}"
            if not d["input"] and d["direction"] == "decode":
                pass
            if got != want:
                return True, f"{cc}: StaticSchema::{d['direction'].capitalize()}Json on value {d['value']}: got {got}, expected {want}"
    return False, "JSON entry point agrees with the canonical format"


def replay_cpp_carrier(d):
    import fcp_cpp.generator as G

    c = G._to_highest_power_of_two(d["N"])
    if c not in (8, 16, 32, 64) or c < d["N"]:
        return True, f"_to_highest_power_of_two({d['N']}) = {c}"
    return False, "ok"


def replay_cpp_permuted(d):
    """Native Encode of the same value through the headers generated from the schema and from its twin."""
    outs = []
    for key, text in (("schema", d["schema_text"]), ("twin", d["twin_text"])):
        dd = {"schema": d[key], "schema_text": text, "top": d["top"], "value": d["value"], "expected_bytes": []}
        import z3

        from . import cxx
        sch = _schema(dd)
        area = []

        def conv(t, x):
            k = t[0]
            if k in ("f32", "f64"):
                return z3.BitVecVal(x["bits"], 32 if k == "f32" else 64)
            if k in ("arr", "dyn"):
                return [conv(t[1], y) for y in x]
            if k == "opt":
                return None if x is None else conv(t[1], x)
            if k == "struct":
                return {fn: conv(ft, x[fn]) for fn, _, ft in sch.struct(t[1])}
            return x
        cxx.marshal(sch, ("struct", d["top"]), conv(("struct", d["top"]), d["value"]), area)
        r = _native_cxx(dd, "e", area, compilers=("clang++-14",))
        outs.append(r[0][2] if r and r[0][1] == 0 else f"failed: {r}")
    if outs[0] != outs[1]:
        return True, f"Encode({d['value']}) = {outs[0]} with the schema, {outs[1]} with its declaration-permuted twin"
    return False, "same bytes"


def replay_c_permuted(d):
    outs = []
    for text in (d["schema_text"], d["twin_text"]):
        dd = dict(d, schema_text=text, expected={"id": 0, "dlc": 0, "data": 0})
        from .native import snake
        P, s = d["top"], snake(d["top"])
        sets = []
        for fn, x in d["fields"].items():
            K = d["carriers"][fn]
            ty = {8: "uint8_t", 16: "uint16_t", 32: "uint32_t", 64: "uint64_t"}[K]
            sets.append(f"  {{ {ty} raw = ({ty}){x}ULL; memcpy(&m.{fn}, &raw, sizeof raw); }}")
        main = ('#include <stdio.h>\n#include <string.h>\n#include "ecu_can.h"\nint main(void) {\n'
                f"  CanMsg{P} m; memset(&m, 0, sizeof m);\n" + "\n".join(sets) +
                f"\n  CanFrame f = can_encode_msg_{s}(&m);\n  unsigned long long w; memcpy(&w, f.data, 8);\n"
                '  printf("%u %u %llu\\n", (unsigned)f.id, (unsigned)f.dlc, w);\n  return 0;\n}\n')
        r = _native_c(text, main, compilers=("clang-14",))
        outs.append(r[0][2].strip() if r and r[0][1] == 0 else f"failed: {r}")
    if outs[0] != outs[1]:
        return True, f"fields {d['fields']}: frame {outs[0]} with the schema, {outs[1]} with its declaration-permuted twin"
    return False, "same frame"


def replay_c_carrier(d):
    main = ('#include <stdio.h>\n#include "ecu_can.h"\nint main(void) { CanMsg%s m; printf("%%u\\n", (unsigned)(8 * sizeof m.%s)); return 0; }\n'
            % (d["top"], d["field"]))
    outs = _native_c(d["schema_text"], main, compilers=("clang-14",))
    if outs and outs[0][1] == 0 and int(outs[0][2].strip()) < d["bits"]:
        return True, f"member {d['field']} has {outs[0][2].strip()} bits, the field needs {d['bits']}"
    return False, str(outs)[:200]


def replay_c_signal_table(d):
    """Generated C text: every decode macro's (start, length) inside 8*dlc of its message, pairwise disjoint."""
    import os
    import re

    from .native import Scratch, generate_c

    with Scratch() as dd:
        fcp, names = generate_c(d["schema_text"], dd)
        src = open(os.path.join(dd, "ecu_can.c")).read()
    sig = re.findall(r"can_decode_signal_as_\w+\(\(msg\), (\d+), (\d+),", src)
    dlc = [int(x) for x in re.findall(r"\.dlc = (\d+)\}", src)]
    rng = sorted((int(a), int(a) + int(b)) for a, b in sig)
    total = max(e for _, e in rng)
    if not dlc or any(e > 8 * dlc[0] for _, e in rng) or dlc[0] != (total + 7) // 8:
        return True, f"signals {rng} with dlc {dlc}"
    for (a0, a1), (b0, b1) in zip(rng, rng[1:]):
        if a1 > b0:
            return True, f"overlapping signals {rng}"
    return False, "signal table fits"


# ---------------------------------------------------------------- history-aware variants (see verif/prime.py)
from .prime import retry_primed as _rp  # noqa: E402

replay_layout = _rp(replay_layout, ("layout", "serde"))
replay_verifier = _rp(replay_verifier, ("verify",))
replay_dbc_tv = _rp(replay_dbc_tv, ("layout", "dbc"))
replay_c_encode = _rp(replay_c_encode, ("layout", "c"))
replay_c_decode = _rp(replay_c_decode, ("layout", "c"))
replay_c_sched = _rp(replay_c_sched, ("layout", "c"))
replay_cpp_encode = _rp(replay_cpp_encode, ("cpp",))
replay_cpp_decode = _rp(replay_cpp_decode, ("cpp",))
replay_cpp_compile = _rp(replay_cpp_compile, ("cpp",))
