"""Concrete replays, one per counterexample kind.  Only plain calls of the real code, no stubs."""
from __future__ import annotations

from .shapes import Schema
from .values import from_json, values_equal


def _schema(d) -> Schema:
    s = d["schema"]
    structs = [(n, [(f[0], f[1], _tt(f[2])) for f in fs]) for n, fs in s["structs"]]
    enums = {k: [tuple(x) for x in v] for k, v in s["enums"].items()}
    return Schema(structs=structs, enums=enums, top=s["top"])


def _tt(t):
    return tuple(_tt(x) if isinstance(x, list) else x for x in t)


def _fcp(d):
    from fcp.parser import get_fcp_from_string
    from fcp.error import Logger

    return get_fcp_from_string(d["schema_text"], Logger({})).unwrap()


def replay_serde_roundtrip(d):
    from fcp import serde

    sch = _schema(d)
    fcp = _fcp(d)
    v = from_json(d["value"])
    try:
        enc = serde.encode(fcp, d["top"], v)
        dec = serde.decode(fcp, d["top"], enc)
    except Exception as e:
        return True, f"round trip of {v!r} raised {type(e).__name__}: {e}"
    if not values_equal(sch, ("struct", d["top"]), v, dec):
        return True, f"decode(encode({v!r})) = {dec!r} (bytes {list(enc)})"
    return False, f"round trip of {v!r} ok"


def replay_serde_encode(d):
    """encode(v) must equal the canonical bytes (given in the file, computed by refspec for this v)."""
    from fcp import serde

    fcp = _fcp(d)
    v = from_json(d["value"])
    exp = bytes(d["expected_bytes"])
    try:
        enc = bytes(serde.encode(fcp, d["top"], v))
    except Exception as e:
        return True, f"encode({v!r}) raised {type(e).__name__}: {e}; canonical bytes {list(exp)}"
    if enc != exp:
        return True, f"encode({v!r}) = {list(enc)} but canonical bytes are {list(exp)}"
    return False, "encode matches canonical bytes"


def replay_serde_decode(d):
    """decode(canonical bytes of v) must return v."""
    from fcp import serde

    sch = _schema(d)
    fcp = _fcp(d)
    v = from_json(d["value"])
    data = bytearray(d["canonical_bytes"])
    try:
        dec = serde.decode(fcp, d["top"], data)
    except Exception as e:
        return True, f"decode({list(data)}) raised {type(e).__name__}: {e}; expected {v!r}"
    if not values_equal(sch, ("struct", d["top"]), v, dec):
        return True, f"decode({list(data)}) = {dec!r}, expected {v!r}"
    return False, "decode of canonical bytes ok"


def replay_serde_truncated(d):
    """decode(data) must raise; returning a value (or exceeding the work bound) reproduces the violation."""
    import time

    from fcp import serde

    fcp = _fcp(d)
    data = bytearray(d["data"])
    t = time.time()
    try:
        dec = serde.decode(fcp, d["top"], data)
    except Exception as e:
        dt = time.time() - t
        if d.get("work_bound") and dt > d.get("max_seconds", 2.0):
            return True, f"decode({list(data)[:24]}..) raised only after {dt:.1f}s: work not bounded by input length"
        return False, f"raised {type(e).__name__}"
    return True, f"decode({list(data)}) returned {dec!r} instead of raising ({d.get('why', '')})"


def replay_layout(d):
    """Real PackedEncoder on the concrete schema (from a stale encoder state) vs. the reference tiling."""
    from fcp.encoding import make_encoder, PackedEncoderContext

    from .layoutref import leaf_list

    sch = _schema(d)
    fcp = _fcp(d)
    impl = [i for i in fcp.impls if i.protocol == "can"][0]
    enc = make_encoder("packed", fcp, PackedEncoderContext().with_unroll_arrays(d["unroll"]))
    enc.bitstart = d.get("pre_bitstart", 0)
    enc.encoding = ["<stale>"]
    try:
        out = enc.generate(impl)
    except Exception as e:
        return True, f"generate raised {type(e).__name__}: {e}"
    ref = leaf_list(sch, d["top"], d["unroll"])
    got = [(str(v.name), v.bitstart, v.bitlength) for v in out]
    pos, exp = 0, []
    for hn, bn, t, w in ref:
        exp.append((hn, pos, w))
        pos += w
    import re
    norm = lambda n: re.sub(r"[^0-9A-Za-z]+", "_", n)
    if [(norm(a), b, c) for a, b, c in got] != [(norm(a), b, c) for a, b, c in exp] or len({g[0] for g in got}) != len(got):
        return True, f"layout {got} != reference {exp}"
    sigs = {s: kv for s, kv in d.get("signals", [])}
    for v, (hn, bn, t, w) in zip(out, ref):
        leafname = hn.split("::")[-1]
        own = sigs.get(leafname) if leafname == bn else None
        allowed = [{}]
        if own is not None:
            allowed = [own] if "::" not in hn else [own, {}]
        elif bn in sigs:
            allowed = [sigs[bn], {}]
        if not any(dict(v.extended_data) == a and v.endianess == (a.get("endianess") or "little") for a in allowed):
            return True, f"options of leaf {hn}: {v.extended_data}/{v.endianess}, allowed {allowed}"
    return False, "layout equals the reference tiling"


def replay_verifier(d):
    """Real verifier on the concrete tree vs. the specification evaluated on the same concrete tree."""
    import importlib

    import z3

    from .checks import verifier_checks as vc
    from .pysym import AtomSpace

    class CS:
        def __init__(self):
            AtomSpace()

        def A(self, n):
            return d["names"][n]

        def I(self, n, lo, hi):
            return d["ints"][n]

    desc = vc.permute(vc.skeletons("quick")[d["skeleton"]](CS()), d["perm"])
    spec = z3.is_true(z3.simplify(vc.SPECS[d["plugin"]](desc)))
    from fcp.verifier import make_general_verifier

    v = make_general_verifier()
    if vc.PLUGINS[d["plugin"]]:
        importlib.import_module(vc.PLUGINS[d["plugin"]]).Generator().register_checks(v)
    try:
        ok = v.verify(vc.build(desc)).is_ok()
    except Exception as e:
        return True, f"verify raised {type(e).__name__}: {e} (specification: {'well' if spec else 'ill'}-formed) tree={desc}"
    if ok != spec:
        return True, f"verify -> {'Ok' if ok else 'Err'}, specification -> {'well' if spec else 'ill'}-formed; tree={desc}"
    return False, f"verdict {ok} equals specification"


def _fcp_text(text):
    from fcp.parser import get_fcp_from_string
    from fcp.error import Logger

    return get_fcp_from_string(text, Logger({})).unwrap()


def replay_serde_permuted(d):
    """encode with the schema and with its declaration-permuted twin must give the same (canonical) bytes."""
    from fcp import serde

    fa, fb = _fcp_text(d["schema_text"]), _fcp_text(d["twin_text"])
    v = from_json(d["value"])
    try:
        a = bytes(serde.encode(fa, d["top"], v))
        b = bytes(serde.encode(fb, d["top"], v))
    except Exception as e:
        return True, f"encode raised {type(e).__name__}: {e}"
    if a != b:
        return True, f"encode({v!r}) = {list(a)} with the schema, {list(b)} with its declaration-permuted twin"
    sch = _schema(d)
    da = serde.decode(fa, d["top"], bytearray(a))
    db = serde.decode(fb, d["top"], bytearray(a))
    if not values_equal(sch, ("struct", d["top"]), da, db):
        return True, f"{list(a)} decodes to {da!r} with the schema and to {db!r} with its twin"
    return False, "same bytes and same decoding for both declaration orders"


def _layout_of(text):
    from fcp.encoding import make_encoder, PackedEncoderContext

    f = _fcp_text(text)
    impl = [i for i in f.impls if i.protocol == "can"][0]
    enc = make_encoder("packed", f, PackedEncoderContext().with_unroll_arrays(True))
    return [(str(v.name), v.bitstart, v.bitlength) for v in enc.generate(impl)]


def replay_permuted_layout(d):
    a, b = _layout_of(d["schema_text"]), _layout_of(d["twin_text"])
    if a != b:
        return True, f"layout {a} vs twin {b}"
    return False, "same layout"


def replay_permuted_dbc(d):
    import fcp_dbc

    ta = fcp_dbc.Generator().generate(_fcp_text(d["schema_text"]), {"output": "out"})
    tb = fcp_dbc.Generator().generate(_fcp_text(d["twin_text"]), {"output": "out"})
    sa = [(r["bus"], r["contents"]) for r in ta]
    sb = [(r["bus"], r["contents"]) for r in tb]
    if sa != sb:
        la, lb = sa[0][1].splitlines(), sb[0][1].splitlines()
        diff = [(x, y) for x, y in zip(la, lb) if x != y][:3]
        return True, f"DBC text differs, e.g. {diff}"
    return False, "same DBC"
