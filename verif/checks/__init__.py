"""Registry of checks: property id -> run(tier) -> exit code."""


def _lazy(mod, fn):
    def run(tier):
        import importlib

        m = importlib.import_module(f"verif.checks.{mod}")
        return getattr(m, fn)(tier)

    return run


REGISTRY = {
    "C01": _lazy("serde_checks", "run_c01"),
    "C02": _lazy("serde_checks", "run_c02"),
    "C16": _lazy("serde_checks", "run_c16"),
    "C04": _lazy("layout_checks", "run_c04"),
    "C05": _lazy("dbc_checks", "run_c05"),
    "C14": _lazy("dbc_checks", "run_c14"),
    "C03": _lazy("cxx_checks", "run_c03"),
    "C18": _lazy("can_checks", "run_c18"),
    "C13": _lazy("dyn_checks", "run_c13"),
    "C06": _lazy("native_checks", "run_c06"),
    "C19": _lazy("native_checks", "run_c19"),
    "C08": _lazy("parser_checks", "run_c08"),
    "C20": _lazy("parser_checks", "run_c20"),
    "C09": _lazy("verifier_checks", "run_c09"),
    "C10": _lazy("gating_checks", "run_c10"),
    "C12": _lazy("reflection_checks", "run_c12"),
    "C15": _lazy("order_checks", "run_c15"),
}
