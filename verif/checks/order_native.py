"""C15, generated C and C++ back ends: a schema and its declaration-permuted twin must produce the same bytes."""
from __future__ import annotations

import os

import z3

from .. import llsym, cxx, refspec
from ..common import Known, add_repo_paths
from ..decide import decide, new_result, finish_engine
from ..native import Scratch, snake
from ..pysym import Engine, EngineLimit, concretize
from ..shapes import Schema, is_fixed, fixed_bits
from ..values import instances, to_json


def cases(shapes, twins_of, tier):
    out = []
    for name, sch in shapes:
        tws = twins_of(sch)[: (2 if tier == "quick" else 6)]
        for tw in tws:
            out.append(("native", "cpp", name, sch, tw, tier))
            if is_fixed(sch, ("struct", sch.top)) and fixed_bits(sch, ("struct", sch.top)) <= 64 and _flat(sch):
                out.append(("native", "c", name, sch, tw, tier))
    return out


def _flat(sch):
    return all(t[0] in ("u", "i", "f32", "f64", "enum") for _, _, t in sch.struct(sch.top))


def c15_native_case(args):
    lang, name, schema, twin, tier = args
    add_repo_paths()
    res = new_result()
    known = Known("C15")
    top = schema.top
    T = ("struct", top)
    feats = {"desc": f"{name}/{lang}: {schema.describe()} vs declaration order {[f for f, _, _ in twin.struct(top)]}",
             "part": lang}
    if lang == "cpp":
        from .cxx_checks import install_natives
        with Scratch() as d:
            mods = []
            for k, s in enumerate((schema, twin)):
                dd = os.path.join(d, f"v{k}")
                try:
                    cxx.generate_cpp(s.text(), dd)
                    open(os.path.join(dd, "harness.cpp"), "w").write(cxx.harness_source(s))
                    ok, ll = cxx.compile_to_ir(dd)
                except Exception as e:
                    ok, ll = False, str(e)
                if not ok:
                    res["inconclusive"].append(f"{feats['desc']}: generated C++ does not build (C03's obligation): {str(ll)[-160:]}")
                    return res
                mod = llsym.Mod()
                llsym.parse_module(open(ll).read(), mod)
                mods.append(mod)
            for ii, inst in enumerate(instances(schema, tier)):
                eng = Engine(timeout_ms=240000, max_paths=200)
                ms = []
                for mod, s in zip(mods, (schema, twin)):
                    m = llsym.Machine(mod)
                    install_natives(m)
                    area = []
                    cxx.marshal(s, T, inst.value, area)
                    argp = m.alloc(len(area) + 16)
                    for i, b in enumerate(area):
                        m.mem[argp + i] = b
                    outp = m.alloc(1024)
                    for i in range(1024):
                        m.mem[outp + i] = 0
                    ms.append((m, argp, outp, dict(m.mem), m.brk))

                def body():
                    outs = []
                    for (m, argp, outp, snap, brk) in ms:
                        m.mem = dict(snap)
                        m.brk = brk
                        n = llsym.run(m, "@enc", [argp, outp])
                        if not isinstance(n, int):
                            raise EngineLimit("symbolic size")
                        outs.append([m.mem[outp + i] for i in range(n)])
                    return outs

                def mk(mdl):
                    return {"kind": "cpp_permuted", "schema_text": schema.text(), "twin_text": twin.text(), "top": top,
                            "schema": {"structs": schema.structs, "enums": schema.enums, "top": top},
                            "twin": {"structs": twin.structs, "enums": twin.enums, "top": top},
                            "value": to_json(concretize(inst.value, mdl))}
                try:
                    for pi, (kind, out, pc) in enumerate(eng.explore(body, inst.assume)):
                        ob = f"{feats['desc']}|inst{ii}|path{pi}"
                        if kind == "exc":
                            res["inconclusive"].append(f"{ob}: interpreter stopped: {type(out).__name__}: {str(out)[:160]}")
                            continue
                        a, b = out
                        viol = z3.BoolVal(True) if len(a) != len(b) else (
                            z3.Not(z3.And(*[llsym.bv(x, 8) == llsym.bv(y, 8) for x, y in zip(a, b)])) if a else z3.BoolVal(False))
                        decide(eng, pc, viol, prop="C15", ob_id=ob, res=res, known=known, features=feats, env={},
                               make_replay=mk, what=f"generated C++ bytes depend on the declaration order on {feats['desc']}")
                except EngineLimit as e:
                    res["inconclusive"].append(f"{feats['desc']}: engine limit: {e}")
                finish_engine(res, eng)
        res["sample"] = {"part": "generated C++", "schema": schema.describe(),
                         "twin_declaration_order": [f for f, _, _ in twin.struct(top)], "paths": res["paths"]}
        return res
    # ---- generated C
    from .native_checks import build_c, HARNESS, CompileError, _frame_parts
    can = lambda s: Schema(structs=s.structs, enums=s.enums, top=s.top,
                           impls=[("can", s.top, None, {"id": 77, "device": "ecu"}, [])])
    P, sn = top, snake(top)
    with Scratch() as d:
        mods = []
        for k, s in enumerate((can(schema), can(twin))):
            try:
                fcp, mod = build_c(s, os.path.join(d, f"v{k}"), HARNESS.format(P=P, s=sn))
            except Exception as e:
                res["inconclusive"].append(f"{feats['desc']}: generated C does not build (C06's obligation): {str(e)[-160:]}")
                return res
            mods.append(mod)
        fields = schema.struct(top)
        zv, assume = {}, []
        for fn, fid, t in fields:
            from .native_checks import carrier_bits
            K = carrier_bits(t, schema)
            v = z3.BitVec(fn, K)
            zv[fn] = v
            if t[0] == "u" and t[1] < K:
                assume.append(z3.ULT(v, 1 << t[1]))
            elif t[0] == "i" and t[1] < K:
                assume.append(z3.And(v >= -(1 << (t[1] - 1)), v < (1 << (t[1] - 1))))
            elif t[0] == "enum":
                assume.append(z3.ULE(v, schema.enum_max(t[1])))
            elif t[0] in ("f32", "f64"):
                assume.append(z3.Not(z3.fpIsNaN(z3.fpBVToFP(v, z3.Float32() if K == 32 else z3.Float64()))))
        eng = Engine(timeout_ms=240000, max_paths=200)
        ms = []
        for mod in mods:
            m = llsym.Machine(mod)
            msg_ty = mod.named[f"%struct.CanMsg{P}"]
            rty = llsym.resolve(mod, msg_ty)
            msgp = m.alloc(llsym.sizeof(mod, msg_ty))
            outp = m.alloc(16)
            ms.append((m, msg_ty, rty, msgp, outp, dict(m.mem)))

        def body():
            outs = []
            for (m, msg_ty, rty, msgp, outp, snap) in ms:
                m.mem = dict(snap)
                # member order of the generated struct follows the signal list: find members by their position in it
                names = _member_names(m.mod, P)
                vals = []
                for nm, ety in zip(names, rty.es):
                    ety = llsym.resolve(m.mod, ety)
                    vals.append(llsym.FP(zv[nm], ety.n) if ety.k == "fp" else zv[nm])
                m.store(msgp, msg_ty, vals)
                llsym.run(m, "@h_encode", [msgp, outp])
                outs.append(_frame_parts(m, outp)[3])
            return outs

        def mk(mdl):
            return {"kind": "c_permuted", "schema_text": can(schema).text(), "twin_text": can(twin).text(), "top": top,
                    "fields": {fn: mdl.eval(v, model_completion=True).as_long() for fn, v in zv.items()},
                    "carriers": {fn: v.size() for fn, v in zv.items()},
                    "kinds": {fn: t[0] for fn, _, t in fields}}
        try:
            for pi, (kind, out, pc) in enumerate(eng.explore(body, assume)):
                ob = f"{feats['desc']}|path{pi}"
                if kind == "exc":
                    res["inconclusive"].append(f"{ob}: interpreter stopped: {type(out).__name__}: {str(out)[:160]}")
                    continue
                a, b = out
                decide(eng, pc, a != b, prop="C15", ob_id=ob, res=res, known=known, features=feats, env={},
                       make_replay=mk, what=f"generated C frame depends on the declaration order on {feats['desc']}")
        except EngineLimit as e:
            res["inconclusive"].append(f"{feats['desc']}: engine limit: {e}")
        finish_engine(res, eng)
    res["sample"] = {"part": "generated C", "schema": schema.describe(),
                     "twin_declaration_order": [f for f, _, _ in twin.struct(top)], "paths": res["paths"]}
    return res


_member_cache = {}


def _member_names(mod, P):
    """Member names of the generated CanMsg<P> struct, read from the generated header (kept with the module)."""
    return mod.member_names[P]
