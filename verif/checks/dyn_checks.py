"""C13: the run-time C++ codec (dynamic.h, after loading the binary reflection the Python tool produces) against the statically
generated one, both through their JSON entry points, interpreted by llsym on clang-14 -O1 IR.

Nothing of the codecs is modelled: DynamicSchema::LoadBinarySchema / EncodeJson / DecodeJson, StaticSchema::EncodeJson /
DecodeJson, reflection.h, buffer.h, decoders.h and nlohmann::json itself are interpreted; only out-of-line libstdc++ / libc
functions have native models (verif/cxxnatives.py).  The json values are built from / dumped to flat areas by harness code
(verif/cxx.py:dyn_harness_source) that is also what the native replay compiles."""
from __future__ import annotations

import os
import random

import z3

from .. import refspec, llsym, cxx, cxxnatives
from ..common import Known, Report, pmap, seed, add_repo_paths, write_replay, run_replay
from ..decide import decide, new_result, finish_engine
from ..native import Scratch
from ..pysym import Engine, EngineLimit, concretize
from ..shapes import Schema, mk_enum, single, has_kind
from ..values import instances, to_json
from .cxx_checks import install_natives, CxxThrow

In8 = ("In", [("p", 0, ("u", 8)), ("q", 1, ("i", 16))])
In5 = ("In", [("p", 0, ("u", 5)), ("q", 1, ("i", 11))])


def _stopped(eng, pc, ob, out, mk, res, what):
    """The interpreter gave up on a path (step budget: a loop that does not end; an access outside every allocation).  That
    is a crash / hang candidate, not a verdict: a witness of the path runs natively (both compilers, real libstdc++) and a
    difference, crash or time-out there is the violation; if the native run is fine the path stays inconclusive."""
    msg = f"{type(out).__name__}: {str(out)[:200]}"
    res["obligations"].append(ob)
    r, mdl = eng.check(pc=list(pc))
    if r == "sat":
        payload = mk(mdl)
        payload.update(obligation=ob, what=f"{what}: interpreter stopped ({msg})")
        path = write_replay("C13", payload)
        okr, text = run_replay(path, timeout=600)
        if okr:
            res["violations"].append({"replay": path, "ob": ob, "what": f"{what} (interpreter: {msg}) :: {text[-300:]}"})
            return
    res["inconclusive"].append(f"{ob}: interpreter stopped: {msg}")


def c13_family(tier, sd=0):
    E = {"E255": mk_enum("E255", 255), "E5": mk_enum("E5", 5), "E1": mk_enum("E1", 1), "E65535": mk_enum("E65535", 65535)}
    fam = []

    def add(fields, enums=None, structs=None):
        fam.append(single(fields, enums, structs))

    # byte-multiple widths
    add([("u", 8), ("i", 16), ("u", 32)])
    add([("i", 8), ("i", 32), ("i", 64), ("u", 64)])
    add([("u", 8), ("enum", "E255"), ("enum", "E65535"), ("i", 8)], E)
    add([("u", 8), ("struct", "In"), ("u", 16)], structs=[In8])
    add([("arr", ("u", 8), 3), ("arr", ("i", 16), 2)])
    add([("u", 8), ("dyn", ("i", 16))])
    add([("opt", ("u", 8)), ("opt", ("i", 32)), ("u", 8)])
    add([("u", 8), ("str",), ("i", 8)])
    add([("a", 2, ("u", 8)), ("b", 0, ("i", 16)), ("c", 1, ("u", 8))])          # ids not in declaration order
    add([("x", 1, ("u", 8)), ("y", 256, ("i", 16)), ("z", 65537, ("u", 8))])   # ids that change order if narrowed to 8 or 16 bits
    add([("f32",), ("u", 8), ("f64",)])
    # strings of the reflection tree that are not ASCII (a binding's extension field): the loader must still find every
    # later declaration where the Python tool put it
    import dataclasses
    s_ = single([("u", 16), ("str",), ("i", 8)])
    fam.append(dataclasses.replace(s_, impls=[("can", s_.top, None, {"id": 7, "note": "\u00b0C \u00b5V"}, [])]))
    add([("dyn", ("struct", "In")), ("u", 8)], structs=[In8])
    add([("u", 3), ("str",), ("u", 5), ("dyn", ("str",))])        # strings that start in the middle of a byte
    # containers of containers that agree on their outer levels and differ below
    add([("arr", ("arr", ("u", 8), 2), 2), ("arr", ("arr", ("u", 16), 3), 2), ("dyn", ("arr", ("i", 8), 2)), ("dyn", ("arr", ("i", 32), 2))])
    # sub-byte widths and offsets
    add([("u", 3), ("i", 13), ("u", 2)])
    add([("u", 3)])
    add([("u", 4), ("enum", "E5"), ("enum", "E1"), ("i", 9)], E)
    add([("u", 8), ("enum", "E0"), ("u", 8)], {"E0": mk_enum("E0", 0)})
    # the largest value belongs neither to the alphabetically last nor to the last declared enumerator
    add([("enum", "EM"), ("u", 8), ("enum", "EQ"), ("u", 5)],
        {"EM": [("EM_A", 0), ("EM_M", 255), ("EM_Z", 1)], "EQ": [("EQ_C", 2), ("EQ_B", 5), ("EQ_D", 0)]})
    add([("u", 4), ("struct", "In"), ("i", 9)], structs=[In5])
    add([("arr", ("u", 6), 3), ("u", 1)])
    add([("u", 3), ("opt", ("i", 13)), ("dyn", ("u", 5))])
    add([("u", 1), ("f32",), ("i", 7)])
    if tier == "thorough":
        add([("i", 24), ("u", 40), ("i", 48), ("u", 56)])
        add([("u", 8), ("arr", ("struct", "In"), 2)], structs=[In8])
        add([("dyn", ("str",)), ("u", 8)])
        add([("opt", ("struct", "In")), ("u", 8)], structs=[In8])
        add([("str",), ("str",)])
        for n in range(1, 65):
            add([("u", n), ("i", n), ("u", 8)])
        add([("u", 8), ("struct", "Out")], structs=[In8, ("Out", [("a", 0, ("struct", "In")), ("b", 1, ("arr", ("struct", "In"), 2)), ("c", 2, ("i", 8))])])
        rng = random.Random(sd)
        from ..shapes import random_schema
        for _ in range(40):
            fam.append(random_schema(rng, include_enums=True, fixed_only=False, depth=1, maxfields=3))
    seen, out = set(), []
    for s in fam:
        bad = False
        for _, fs in s.structs:
            for _, _, t in fs:
                if t[0] == "opt" and t[1][0] in ("dyn", "str", "opt"):
                    bad = True      # null vs [] vs "" is not distinguishable in the static codec's own JSON: outside the claim
        if not bad and s.text() not in seen:
            seen.add(s.text())
            out.append(s)
    return out


def leaf_bits(schema: Schema, t, acc):
    k = t[0]
    if k in ("u", "i"):
        acc.append(t[1])
    elif k == "f32":
        acc.append(32)
    elif k == "f64":
        acc.append(64)
    elif k == "enum":
        from ..shapes import enum_width
        acc.append(enum_width(schema.enum_max(t[1])))
    elif k == "str":
        acc.append(8)
    elif k in ("arr", "dyn", "opt"):
        leaf_bits(schema, t[1], acc)
    elif k == "struct":
        for _, _, ft in schema.struct(t[1]):
            leaf_bits(schema, ft, acc)
    return acc


def c13_case(args):
    schema, tier = args
    add_repo_paths()
    res = new_result()
    known = Known("C13")
    top = schema.top
    T = ("struct", top)
    desc = schema.describe()
    widths = leaf_bits(schema, T, [])
    feats = {"desc": desc,
             "all_widths_byte_multiples": all(w % 8 == 0 for w in widths),
             "decl_in_id_order": all([fid for _, fid, _ in fs] == sorted(fid for _, fid, _ in fs) for _, fs in schema.structs),
             "has_enum": has_kind(schema, T, ("enum",)), "has_float": has_kind(schema, T, ("f32", "f64")),
             "has_optional": has_kind(schema, T, ("opt",)), "has_nested_struct": any(
                 has_kind(schema, ft, ("struct",)) for _, _, ft in schema.struct(top))}
    base = {"schema_text": schema.text(), "property": "C13", "top": top,
            "schema": {"structs": schema.structs, "enums": schema.enums, "top": top}}
    with Scratch() as d:
        ob = f"{desc}|compiles+loads"
        res["obligations"].append(ob)
        dtext = ""
        try:
            from ..prime import prime, decoy_text
            dtext = decoy_text(schema)
            prime(dtext, ("cpp",))
            fcp = cxx.generate_cpp(schema.text(), d)
            binv = cxx.reflection_binary(fcp)
            open(os.path.join(d, "harness.cpp"), "w").write(cxx.dyn_harness_source(schema))
            ok, ll = cxx.compile_to_ir(d)
        except Exception as e:
            ok, ll, binv = False, f"{type(e).__name__}: {e}", b""
        base["decoy_text"] = dtext
        if not ok:
            path = write_replay("C13", dict(base, kind="dyn_compile"))
            okr, text = run_replay(path)
            if okr:
                res["violations"].append({"replay": path, "ob": ob, "what": f"generated run-time codec does not build for {desc}: {str(ll)[-300:]}"})
            else:
                res["inconclusive"].append(f"{ob}: harness TU did not compile but the replay TU does: {str(ll)[-300:]}")
            return res
        mod = llsym.Mod()
        llsym.parse_module(open(ll).read(), mod)
        m = llsym.Machine(mod)
        install_natives(m)
        cxxnatives.install(m)
        binp = m.alloc(len(binv) + 1)
        for i, b in enumerate(binv):
            m.mem[binp + i] = b
        m.step_budget = 8_000_000      # ~100x the largest legitimate run: a loop that does not end is an EngineLimit
        try:
            sp = llsym.run(m, "@dyn_load", [binp, len(binv)])
        except CxxThrow as e:
            path = write_replay("C13", dict(base, kind="dyn_compile"))
            okr, text = run_replay(path)
            if okr:
                res["violations"].append({"replay": path, "ob": ob, "what": f"LoadBinarySchema threw {e} on the reflection of {desc}"})
            else:
                res["unconfirmed"].append(f"{ob}: LoadBinarySchema threw {e} in the interpreter only")
            return res
        except EngineLimit as e:
            # an out-of-bounds access while loading is a crash candidate: decided by the native run (both compilers)
            path = write_replay("C13", dict(base, kind="dyn_compile"))
            okr, text = run_replay(path)
            if okr:
                res["violations"].append({"replay": path, "ob": ob, "what": f"LoadBinarySchema fails on the reflection binary the "
                                          f"tool wrote for {desc} (interpreter: {str(e)[:80]}) :: {text[-200:]}"})
            else:
                res["inconclusive"].append(f"{ob}: engine limit while loading the reflection: {e}")
            return res
        res["discharged"] += 1
        load_steps = m.steps
        snap0, brk0 = dict(m.mem), m.brk
        tmo = 240000 if tier == "quick" else 600000
        steps = 0
        reached = set()

        def side(fn, a):
            try:
                r = llsym.run(m, fn, a)
            except CxxThrow as e:
                return ("throw", str(e)[:60])
            if not isinstance(r, int):
                raise EngineLimit(f"{fn} result is symbolic")
            return ("ret", llsym.sext(r, 64))

        for ii, inst in enumerate(instances(schema, tier)):
            enum_ok = []
            for p_, (k_, en) in inst.kinds.items():
                if k_ == "enum":
                    enum_ok.append(z3.Or(*[inst.vars[p_].e == v for _, v in schema.enums[en]]))
            nonnan = []      # a NaN's payload does not survive float <-> double inside JSON in a way z3's FP theory fixes: outside
            for p_, (k_, _) in inst.kinds.items():
                if k_ in ("f32", "f64"):
                    nonnan.append(z3.Not(z3.fpIsNaN(z3.fpBVToFP(inst.vars[p_].e, z3.Float32() if k_ == "f32" else z3.Float64()))))
            assume = inst.assume + enum_ok + nonnan
            env = {"v": {p: x.e for p, x in inst.vars.items()}}
            canon = refspec.canon_bytes(schema, T, inst.value)
            area = []
            cxx.marshal(schema, T, inst.value, area, enum_bits=64)
            aligned = field_aligned_bytes(schema, T, inst.value)

            # ---------------- encode: static bytes == dynamic bytes
            m.mem, m.brk = dict(snap0), brk0
            argp = m.alloc(len(area) + 16)
            _put(m, argp, area)
            o1, o2 = m.alloc(len(canon) + 256), m.alloc(len(canon) + 256)
            snap, brk = dict(m.mem), m.brk
            eng = Engine(timeout_ms=tmo, max_paths=300)

            def enc_body():
                m.mem, m.brk = dict(snap), brk
                a = side("@sta_enc", [argp, o1])
                b = side("@dyn_enc", [sp, argp, o2])
                ra = [m.mem[o1 + i] for i in range(a[1])] if a[0] == "ret" and a[1] >= 0 else None
                rb = [m.mem[o2 + i] for i in range(b[1])] if b[0] == "ret" and b[1] >= 0 else None
                return a, ra, b, rb

            def mk_enc(mdl, inst=inst, area=area):
                val = concretize(inst.value, mdl)
                return dict(base, kind="dyn_encode", value=to_json(val),
                            area=[b if isinstance(b, int) else mdl.eval(b, model_completion=True).as_long() for b in area])

            try:
                for pi, (kind, out, pc) in enumerate(eng.explore(enc_body, assume)):
                    ob = f"{desc}|inst{ii}|encode|path{pi}"
                    if kind == "exc":
                        _stopped(eng, pc, ob, out, mk_enc, res, what=f"EncodeJson on {desc}")
                        continue
                    a, ra, b, rb = out
                    reached.add("encode")
                    viol, why = _differ(a, ra, b, rb)
                    env_e = dict(env, dyn=[llsym.bv(x, 8) for x in rb] if rb is not None else None, field_aligned=aligned,
                                 zip=zip, len=len)
                    decide(eng, pc, viol, prop="C13", ob_id=ob, res=res, known=known, features=dict(feats, obligation="encode"),
                           env=env_e, make_replay=mk_enc, what=f"EncodeJson on {desc}: {why}")
            except EngineLimit as e:
                res["inconclusive"].append(f"{desc}|inst{ii}|encode: engine limit: {e}")
            finish_engine(res, eng)
            steps += m.steps

            # ---------------- decode of the canonical bytes: static value == dynamic value
            m.mem, m.brk = dict(snap0), brk0
            nb = len(canon)
            inp = m.alloc(nb + 16)
            _put(m, inp, canon)
            a1, a2 = m.alloc(len(area) + 256), m.alloc(len(area) + 256)
            snap, brk = dict(m.mem), m.brk
            eng = Engine(timeout_ms=tmo, max_paths=300)

            def dec_body():
                m.mem, m.brk = dict(snap), brk
                a = side("@sta_dec", [inp, nb, a1])
                b = side("@dyn_dec", [sp, inp, nb, a2])
                ra = [m.mem[a1 + i] for i in range(a[1])] if a[0] == "ret" and a[1] >= 0 else None
                rb = [m.mem[a2 + i] for i in range(b[1])] if b[0] == "ret" and b[1] >= 0 else None
                return a, ra, b, rb

            def mk_dec(mdl, canon=canon):
                return dict(base, kind="dyn_decode", bytes=[b if isinstance(b, int) else mdl.eval(b, model_completion=True).as_long() for b in canon])

            try:
                for pi, (kind, out, pc) in enumerate(eng.explore(dec_body, assume)):
                    ob = f"{desc}|inst{ii}|decode|path{pi}"
                    if kind == "exc":
                        _stopped(eng, pc, ob, out, mk_dec, res, what=f"DecodeJson of canonical bytes on {desc}")
                        continue
                    a, ra, b, rb = out
                    reached.add("decode")
                    viol, why = _differ(a, ra, b, rb)
                    decide(eng, pc, viol, prop="C13", ob_id=ob, res=res, known=known, features=dict(feats, obligation="decode"),
                           env=env, make_replay=mk_dec,
                           what=f"DecodeJson of canonical bytes on {desc}: {why}")
            except EngineLimit as e:
                res["inconclusive"].append(f"{desc}|inst{ii}|decode: engine limit: {e}")
            finish_engine(res, eng)
            steps += m.steps
        res["vacuity"]["directions reached to their end"] = len(reached)
        if len(reached) < 2 and not res["violations"] and not res["inconclusive"]:
            res["inconclusive"].append(f"{desc}: never reached the end of both directions")
        res["functions"] = ["generated:dynamic.h:DynamicSchema::LoadBinarySchema/EncodeJson/DecodeJson/_Encode/_Decode/*",
                            "generated:reflection.h:fcp::reflection::Fcp::Decode", "generated:fcp.h:StaticSchema::EncodeJson/DecodeJson",
                            "generated:fcp.h:<S>::FromJson/DecodeJson/Encode/Decode", "buffer.h:Buffer::*", "decoders.h:*",
                            "nlohmann/json.hpp (interpreted)", "src/fcp/specs/v2.py:FcpV2.reflection + src/fcp/serde.py:encode (concrete, produce the binary)"]
        res["sample"] = {"schema": desc, "reflection_bytes": len(binv), "load_ir_steps": load_steps, "ir_steps": steps,
                         "paths": res["paths"], "queries": res["queries"]}
    return res


def field_aligned_bytes(schema: Schema, t, v):
    """What an encoder that gives every leaf / element / field its own byte-aligned buffer and concatenates the pieces
    produces (the behaviour recorded as KF-DYN-ENCODE-BYTE-ALIGNED): list of 8-bit z3 terms.  Only used to delimit that
    finding's region - it is not an oracle."""
    k = t[0]
    if k in ("u", "i", "f32", "f64", "enum", "str"):
        total, word = refspec.pack(refspec.segments(schema, t, v))
        nbytes = (total + 7) // 8
        if nbytes * 8 > total:
            word = z3.ZeroExt(nbytes * 8 - total, word)
        return [z3.simplify(z3.Extract(8 * i + 7, 8 * i, word)) for i in range(nbytes)]
    if k == "arr":
        return [b for x in v for b in field_aligned_bytes(schema, t[1], x)]
    if k == "dyn":
        n = z3.BitVecVal(len(v), 32)
        return [z3.simplify(z3.Extract(8 * i + 7, 8 * i, n)) for i in range(4)] + [b for x in v for b in field_aligned_bytes(schema, t[1], x)]
    if k == "opt":
        if v is None:
            return [z3.BitVecVal(0, 8)]
        return [z3.BitVecVal(1, 8)] + field_aligned_bytes(schema, t[1], v)
    if k == "struct":
        return [b for fn, _, ft in sorted(schema.struct(t[1]), key=lambda f: f[1]) for b in field_aligned_bytes(schema, ft, v[fn])]
    raise ValueError(t)


def _put(m, addr, bs):
    for i, b in enumerate(bs):
        if not isinstance(b, int):
            sb = z3.simplify(b)
            b = sb.as_long() if z3.is_bv_value(sb) else sb
        m.mem[addr + i] = b


def _differ(a, ra, b, rb):
    """(z3 Bool: the two sides differ on this path, text)"""
    if a[0] != b[0]:
        return z3.BoolVal(True), f"static {a}, dynamic {b}"
    if a[0] == "throw":
        return z3.BoolVal(False), "both throw"
    if (ra is None) != (rb is None):
        return z3.BoolVal(True), f"static {'nullopt' if ra is None else 'a result'}, dynamic {'nullopt' if rb is None else 'a result'}"
    if ra is None:
        return z3.BoolVal(False), "both nullopt"
    if len(ra) != len(rb):
        return z3.BoolVal(True), f"static gives {len(ra)} bytes, dynamic {len(rb)}"
    if not ra:
        return z3.BoolVal(False), "both empty"
    return z3.Not(z3.And(*[llsym.bv(x, 8) == llsym.bv(y, 8) for x, y in zip(ra, rb)])), "results differ"


def run_c13(tier: str) -> int:
    rep = Report("C13", tier)
    fam = c13_family(tier, seed())
    rep.bounds = {
        "schemas": len(fam),
        "family": "verif.checks.dyn_checks.c13_family: byte-multiple and sub-byte integer widths, signed fields, enums (3/1/8/16 bit), "
                  "nested structs, fixed arrays, dynamic arrays, Optional, str, f32/f64, ids out of declaration order",
        "values": "Encode: every in-range value of each instance (length/presence patterns of verif.values; enum leaves range over "
                  "the declared enumerators, floats over every non-NaN bit pattern); Decode: the canonical bytes (refspec) of every such value",
        "ir": "clang++-14 -std=c++17 -O1 IR of a harness TU including the generated dynamic.h / reflection.h / fcp.h and nlohmann/json.hpp",
        "outside": "Optional of a container/str/Optional (the static codec's own JSON does not distinguish null from empty), "
                   "undeclared enumerator numbers, NaN payloads, non-canonical byte strings, LoadBinarySchemaFromFile (file I/O), "
                   "CanDynamicSchema",
    }
    rep.stubs = ["_Rb_tree_insert_and_rebalance: insertion without rebalancing (same in-order sequence); _Rb_tree_increment/decrement exact",
                 "basic_string copy ctor/_M_assign/_M_append/_M_replace/_M_create/_M_mutate/reserve/compare (standard effects)",
                 "strtol (base 10), log2 (concrete), std::to_string via __to_xstring (%f %d %u)", "operator new/delete, memcmp/strlen",
                 "__cxa_throw & std::__throw_* end the side as 'throws'", "llvm.* intrinsics incl. ceil/floor"]
    rep.assumptions = ["the reflection binary is produced by the real FcpV2.reflection() + serde.encode for the same parsed schema",
                       "json values are built from / dumped to flat areas by harness code; enumerators are spelled as names "
                       "towards the dynamic schema and compared by their numbers (the representational difference the property allows)",
                       "null vs empty array for an empty dynamic array is not counted as a difference",
                       "counterexamples are replayed with the same TU compiled natively (clang++ and g++)"]
    for r in pmap(c13_case, [(s, tier) for s in fam]):
        rep.merge(r)
        if rep.red_enough():
            break
    return rep.finish()
