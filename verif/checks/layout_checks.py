"""C04: the real PackedEncoder.generate under pysym with symbolic field ids, widths, enum maxima and pre-state."""
from __future__ import annotations

import copy
import itertools
import re

import z3

from ..common import Known, Report, pmap, seed, add_repo_paths
from ..decide import decide, new_result, finish_engine
from ..fromfcp import parse
from ..layoutref import leaf_list
from ..pysym import (Engine, EngineLimit, SymInt, Coverage, install, W, z3of, sym_max, sym_sorted, ForkingRange)
from ..pystubs import MathStub, SymWidthName, sym_int_ext, sym_log2, sym_ceil, check_log2_contract
from ..shapes import Schema, Ident, mk_enum

STUB_NOTE = [
    "fcp.encoding: sorted -> forking insertion sort, int/log2/ceil -> models; fcp.specs.enum: math -> MathStub, "
    "max -> forking max; fcp.specs.type: int -> accepts the symbolic decimal suffix of a type name",
    "math.log2 contract (monotone; exact at 2^k; floor/ceil values at 2^k-1, 2^k, 2^k+1 evaluated with the real "
    "libm on every run for k <= 47): floor(log2(m)+c) == bit_length(m)-1+c for 1 <= m < 2^47",
]


def _setup():
    add_repo_paths()
    from fcp import encoding
    from fcp.specs import enum as enum_mod
    from fcp.specs import type as type_mod

    encoding.sorted = sym_sorted
    encoding.int = sym_int_ext
    encoding.log2 = sym_log2
    encoding.ceil = sym_ceil
    encoding.range = ForkingRange
    enum_mod.math = MathStub()
    enum_mod.max = sym_max
    enum_mod.int = sym_int_ext
    type_mod.int = sym_int_ext
    return encoding


# ---------------------------------------------------------------- skeletons: Schema with named symbolic sites
def _syms(skel: Schema):
    """Names of symbolic sites in a skeleton: ids ('id*'), widths ('w*'), enum maxima ('m*')."""
    ids, ws, ms = [], [], []

    def ty(t):
        if t[0] in ("u", "i") and isinstance(t[1], str):
            if t[1] not in ws:
                ws.append(t[1])
        elif t[0] in ("arr",):
            ty(t[1])

    for sn, fs in skel.structs:
        for fn, fid, t in fs:
            if isinstance(fid, str) and fid not in ids:
                ids.append(fid)
            ty(t)
    for en, vals in skel.enums.items():
        for n, v in vals:
            if isinstance(v, str) and v not in ms:
                ms.append(v)
    return ids, ws, ms


def concretize_skel(skel: Schema, asg: dict) -> Schema:
    def ty(t):
        if t[0] in ("u", "i"):
            return (t[0], asg[t[1]] if isinstance(t[1], str) else t[1])
        if t[0] == "arr":
            return ("arr", ty(t[1]), t[2])
        return t

    structs = [(sn, [(fn, asg[fid] if isinstance(fid, str) else fid, ty(t)) for fn, fid, t in fs])
               for sn, fs in skel.structs]
    enums = {en: [(n, asg[v] if isinstance(v, str) else v) for n, v in vals] for en, vals in skel.enums.items()}
    return Schema(structs=structs, enums=enums, impls=skel.impls, top=skel.top)


def default_asg(skel: Schema):
    ids, ws, ms = _syms(skel)
    asg = {}
    for i, n in enumerate(ids):
        asg[n] = i
    for n in ws:
        asg[n] = 8
    for n in ms:
        asg[n] = 3
    return asg


def skeletons(tier):
    E = {"E": [("A", 0), ("Z", "m0")]}
    In = ("In", [("p", "id4", ("u", 5)), ("q", "id5", ("enum", "E")), ("r", 9, ("arr", ("u", 2), 2))])
    can = [("can", "S", None, {"id": 1}, [])]
    out = []
    out.append(("flat4", Schema(structs=[("S", [("a", "id0", ("u", "w0")), ("b", "id1", ("i", "w1")),
                                                 ("c", "id2", ("f32",)), ("d", "id3", ("enum", "E"))])],
                                enums=E, impls=can)))
    out.append(("nested", Schema(structs=[In, ("S", [("a", "id0", ("u", "w0")), ("b", "id1", ("struct", "In")),
                                                      ("c", "id2", ("arr", ("i", "w1"), 3)),
                                                      ("d", "id3", ("enum", "E"))])], enums=E, impls=can)))
    out.append(("arrays", Schema(structs=[("In", [("p", 0, ("u", 5)), ("q", 1, ("i", "w0"))]),
                                          ("S", [("a", "id0", ("arr", ("struct", "In"), 2)),
                                                 ("b", "id1", ("arr", ("arr", ("u", 3), 3), 2)),
                                                 ("c", "id2", ("f64",)), ("d", 7, ("arr", ("u", "w0"), 1))])], impls=can)))
    out.append(("deep", Schema(structs=[("B", [("z", "id3", ("u", "w0")), ("z2", "id4", ("f32",))]),
                                        ("A", [("y", "id1", ("struct", "B")), ("k", "id2", ("i", "w1"))]),
                                        ("S", [("x", 1, ("struct", "A")), ("t", 0, ("u", 1))])], impls=can)))
    out.append(("enum_only", Schema(structs=[("S", [("a", 0, ("enum", "E")), ("b", 1, ("enum", "G")), ("c", 2, ("u", 1))])],
                                    enums={"E": [("A", 0), ("Z", "m0")], "G": [("P", "m1"), ("Q", 1), ("R", 0)]}, impls=can)))
    # `bitstart` is a documented signal option that the packed layout does not honour: the layout stays the tiling
    sig = [("f1", {"endianess": "big", "mux_count": 4, "mux_signal": "f0"}), ("f1_0", {"bitstart": 40}),
           ("f0", {"bitstart": 3})]
    out.append(("options", Schema(structs=[("In", [("f1", 0, ("u", 3)), ("h", 1, ("u", 2))]),
                                           ("S", [("f0", "id0", ("u", 8)), ("f1", "id1", ("u", 16)),
                                                  ("f2", "id2", ("arr", ("u", 4), 1)), ("g", "id3", ("struct", "In")),
                                                  ("f1_1", 8, ("u", 5)), ("f1_0", 9, ("i", 3))])],
                                  impls=[("can", "S", None, {"id": 1}, sig)])))
    # a sibling field spelled like an unrolled element of the array next to it (identifiers may contain '_<digits>')
    out.append(("unroll_name_clash", Schema(structs=[("S", [("a", "id0", ("arr", ("u", "w0"), 2)), ("a_0", "id1", ("u", 8)),
                                                            ("b", "id2", ("i", "w1")), ("a_2", "id3", ("u", 3))])],
                                            impls=can)))
    if tier == "thorough":
        out.append(("wide", Schema(structs=[("S", [(f"f{i}", f"id{i}", ("u" if i % 2 else "i", f"w{i % 3}"))
                                                   for i in range(5)])], impls=can)))
        out.append(("two_enums", Schema(structs=[("S", [("a", "id0", ("enum", "E")), ("b", "id1", ("enum", "F")),
                                                        ("c", "id2", ("u", "w0"))])],
                                        enums={"E": [("A", 0), ("Z", "m0")], "F": [("A", "m1"), ("B", 1), ("C", 0)]},
                                        impls=can)))
        out.append(("arr3", Schema(structs=[("In", [("p", "id3", ("arr", ("u", "w0"), 2)), ("q", "id4", ("f32",))]),
                                            ("S", [("a", "id0", ("arr", ("struct", "In"), 2)),
                                                   ("b", "id1", ("arr", ("arr", ("arr", ("i", 2), 2), 1), 2)),
                                                   ("c", "id2", ("u", 1))])], impls=can)))
    return out


def _patch(fcp, skel: Schema, sym: dict):
    """Replace the concrete leaves of the parsed tree by the symbolic sites of the skeleton."""
    def patch_type(ft, t):
        if t[0] in ("u", "i") and isinstance(t[1], str):
            ft.name = SymWidthName(t[0], sym[t[1]])
        elif t[0] == "arr":
            patch_type(ft.underlying_type, t[1])

    for sn, fs in skel.structs:
        st = fcp.get_struct(sn).unwrap()
        byname = {f.name: f for f in st.fields}
        for fn, fid, t in fs:
            f = byname[fn]
            if isinstance(fid, str):
                f.field_id = sym[fid]
            patch_type(f.type, t)
    for en, vals in skel.enums.items():
        e = fcp.get_enum(en).unwrap()
        byname = {x.name: x for x in e.enumeration}
        for n, v in vals:
            if isinstance(v, str):
                byname[n].value = sym[v]


def _bitlen_expr(e):
    """bit_length(max) with minimum 1, as a z3 term over a W-bit value in [0, 2^47)."""
    r = z3.BitVecVal(1, W)
    for k in range(1, 47):
        r = z3.If(e >= (1 << k), z3.BitVecVal(k + 1, W), r)
    return r


def _piece(v):
    return (str(v.name), v.bitstart, v.bitlength, v.endianess, dict(v.extended_data))


def _set_pre_state(enc, bitstart, encoding):
    """Arbitrary pre-state of a reused encoder, as far as the encoder keeps such state in assignable attributes (an
    encoder that derives its cursor from what it emitted has no such state to set: the two-call history covers it)."""
    for attr, val in (("bitstart", bitstart), ("encoding", encoding)):
        if hasattr(enc, attr):
            try:
                setattr(enc, attr, val)
            except AttributeError:
                pass


def c04_case(args):
    name, skel, unroll, tier = args
    encoding = _setup()
    from fcp.encoding import make_encoder, PackedEncoderContext, Value
    from fcp.specs.type import UnsignedType

    res = new_result()
    known = Known("C04")
    ids, ws, ms = _syms(skel)
    sym, assume = {}, []
    for n in ids:
        sym[n], c = SymInt.fresh(n, 0, 2 ** 31 - 1)
        assume.append(c)
    # ids are distinct per struct (the front end's domain: one id per field)
    for sn, fs in skel.structs:
        vs = [sym[fid].e if isinstance(fid, str) else z3.BitVecVal(fid, W) for _, fid, _ in fs]
        if len(vs) > 1:
            assume.append(z3.Distinct(*vs))
    for n in ws:
        sym[n], c = SymInt.fresh(n, 1, 64)
        assume.append(c)
    for n in ms:
        sym[n], c = SymInt.fresh(n, 0, 2 ** 32 - 1)
        assume.append(c)
    pre_bitstart, c = SymInt.fresh("pre_bitstart", 0, 2 ** 40)
    assume.append(c)
    feats = {"desc": f"{name}/unroll={unroll}", "skeleton": name, "unroll": unroll,
             "has_enum": bool(skel.enums), "nsym": len(sym), "obligation": "", "duplicate_names": []}
    base = concretize_skel(skel, default_asg(skel))
    text = base.text()
    from ..prime import prime, decoy_text
    dtext = decoy_text(base)
    prime(dtext, ("layout", "serde"))
    cov = Coverage()
    eng = Engine(timeout_ms=240000 if tier == "quick" else 600000, max_paths=20000)

    def fresh_fcp():
        fcp = parse(text)
        _patch(fcp, skel, sym)
        return fcp

    def body():
        fcp = fresh_fcp()
        impl = [i for i in fcp.impls if i.protocol == "can"][0]
        enc = make_encoder("packed", fcp, PackedEncoderContext().with_unroll_arrays(unroll))
        # arbitrary pre-state of the reused encoder (one inductive step covers every call history)
        _set_pre_state(enc, pre_bitstart, [Value("stale_piece_of_an_earlier_generate", UnsignedType("u8"), 0, 8)])
        before = [(s.name, [(f.name, id(f.type)) for f in s.fields]) for s in fcp.structs]
        out = enc.generate(impl)
        after = [(s.name, [(f.name, id(f.type)) for f in s.fields]) for s in fcp.structs]
        # a real two-call history: the implicit default binding of the same struct laid out by the reused encoder
        # must equal what a fresh encoder gives (covers state the inductive pre-state does not know about)
        dflt = [i for i in fcp.impls if i.protocol == "default" and i.type == impl.type][0]
        again = [_piece(v) for v in enc.generate(dflt)]
        fresh = [_piece(v) for v in make_encoder("packed", fcp, PackedEncoderContext().with_unroll_arrays(unroll)).generate(dflt)]
        # ... and the same binding once more, by the same and by a new encoder: laying a binding out must not change what
        # a later layout of it says (options included)
        first = [_piece(v) for v in out]
        tag = lambda t, p_: (t + p_[0],) + tuple(p_[1:])
        again += [tag("again:", _piece(v)) for v in enc.generate(impl)]
        fresh += [tag("again:", p_) for p_ in first]
        again += [tag("anew:", _piece(v)) for v in
                  make_encoder("packed", fcp, PackedEncoderContext().with_unroll_arrays(unroll)).generate(impl)]
        fresh += [tag("anew:", p_) for p_ in first]
        return out, before == after, again, fresh

    def env_of():
        return {"v": {k: x.e for k, x in sym.items()}}

    try:
        with cov:
            paths = list(eng.explore(body, assume))
        for pi, (kind, out, pc) in enumerate(paths):
            ob = f"{feats['desc']}|path{pi}"

            def mk(m, what_kind="layout"):
                asg = {k: m.eval(x.e, model_completion=True).as_signed_long() for k, x in sym.items()}
                conc = concretize_skel(skel, asg)
                return {"kind": "layout", "schema_text": conc.text(), "unroll": unroll, "top": "S",
                        "schema": {"structs": conc.structs, "enums": conc.enums, "top": "S"},
                        "pre_bitstart": m.eval(pre_bitstart.e, model_completion=True).as_long(),
                        "signals": [list(s) for s in (skel.impls[0][4] if skel.impls else [])],
                        "assignment": asg, "decoy_text": dtext}

            if kind == "exc":
                decide(eng, pc, z3.BoolVal(True), prop="C04", ob_id=ob + "|returns", res=res, known=known,
                       features=feats, env=env_of(), make_replay=mk,
                       what=f"generate raised {type(out).__name__}: {out} on {feats['desc']}")
                continue
            values, unchanged, again, fresh = out
            if len(again) != len(fresh) or any(a[0] != f[0] or a[3:] != f[3:] for a, f in zip(again, fresh)):
                decide(eng, pc, z3.BoolVal(True), prop="C04", ob_id=ob + "|history", res=res, known=known,
                       features=feats, env=env_of(), make_replay=mk,
                       what=f"layout of a binding depends on what the encoder laid out before: {again[:3]} vs fresh "
                            f"{fresh[:3]} on {feats['desc']}")
                continue
            hcs = []
            for a, f in zip(again, fresh):
                hcs += [z3of(a[1]) == z3of(f[1]), z3of(a[2]) == z3of(f[2])]
            decide(eng, pc, z3.Not(z3.And(*hcs)) if hcs else z3.BoolVal(False), prop="C04", ob_id=ob + "|history",
                   res=res, known=known, features=feats, env=env_of(), make_replay=mk,
                   what=f"bit ranges of a binding depend on what the encoder laid out before on {feats['desc']}")
            # order: under this path's id order the names must be the reference order
            r, m = eng.check(pc=pc)
            if r != "sat":
                res["inconclusive"].append(f"{ob}: path condition {r}")
                continue
            asg = {k: m.eval(x.e, model_completion=True).as_signed_long() for k, x in sym.items()}
            conc = concretize_skel(skel, asg)
            ref = leaf_list(conc, "S", unroll)
            names = [str(v.name) for v in values]
            norm = lambda n: re.sub(r"[^0-9A-Za-z]+", "_", n)
            # names: (up to the separator spelling) the hierarchical reference names in order ...
            if [norm(n) for n in names] != [norm(r_[0]) for r_ in ref] or not unchanged:
                what = (f"leaf names/order {names} != reference {[r_[0] for r_ in ref]}" if unchanged
                        else "generate() mutated the schema tree")
                decide(eng, pc, z3.BoolVal(True), prop="C04", ob_id=ob + "|order", res=res, known=known,
                       features=feats, env=env_of(), make_replay=mk, what=f"{what} on {feats['desc']}")
                continue
            res["obligations"].append(ob + "|order")
            res["discharged"] += 1
            # ... and pairwise distinct (an obligation of its own: the bit ranges below are judged either way)
            if len(set(names)) != len(names):
                dup = sorted({n for n in names if names.count(n) > 1})
                decide(eng, pc, z3.BoolVal(True), prop="C04", ob_id=ob + "|unique-names", res=res, known=known,
                       features=dict(feats, obligation="unique-names", duplicate_names=dup), env=env_of(),
                       make_replay=lambda m: dict(mk(m), expect_unique_names=True),
                       what=f"leaf names are not unique: {dup} in {names} on {feats['desc']}")
            else:
                res["obligations"].append(ob + "|unique-names")
                res["discharged"] += 1
            # widths and tiling, symbolically (reference widths over the symbolic sites)
            skel_ref = leaf_list(_order_like(skel, asg), "S", unroll, width_of=lambda t: _sym_width(t, sym, skel))
            cs = []
            pos = z3.BitVecVal(0, W)
            for v, (hn, bn, t, w) in zip(values, skel_ref):
                we = z3of(w)
                cs.append(z3of(v.bitstart) == pos)
                cs.append(z3of(v.bitlength) == we)
                pos = pos + we
            decide(eng, pc, z3.Not(z3.And(*cs)), prop="C04", ob_id=ob + "|tiling", res=res, known=known,
                   features=feats, env=env_of(), make_replay=mk,
                   what=f"leaf start/width differs from the gap-free tiling on {feats['desc']}")
            # option locality
            sigs = {s: kv for s, kv in (skel.impls[0][4] if skel.impls else [])}
            bad = []
            for v, (hn, bn, t, w) in zip(values, skel_ref):
                got = dict(v.extended_data)
                top_level = "::" not in hn
                leafname = hn.split("::")[-1]
                own = sigs.get(leafname) if leafname == bn else None   # unrolled elements carry a derived name
                allowed = [{}]
                if own is not None:
                    allowed = [own] if top_level else [own, {}]   # equally named nested field: either is fine
                elif bn in sigs:
                    allowed = [sigs[bn], {}]                      # element of an unrolled array field: either
                ok = any(got == a and v.endianess == (a.get("endianess") or "little") for a in allowed)
                if not ok:
                    bad.append((hn, got, v.endianess, allowed))
            if bad:
                decide(eng, pc, z3.BoolVal(True), prop="C04", ob_id=ob + "|options", res=res, known=known,
                       features=feats, env=env_of(), make_replay=mk,
                       what=f"signal options on the wrong leaf: {bad[:2]} on {feats['desc']}")
            else:
                res["obligations"].append(ob + "|options")
                res["discharged"] += 1
        res["vacuity"]["twin_expected"] = 1
        res["vacuity"]["twin_reached"] = 1 if any(k == "ret" for k, _, _ in paths) else 0
    except EngineLimit as e:
        res["inconclusive"].append(f"{feats['desc']}: engine limit: {e}")
    finish_engine(res, eng)
    res["functions"] = sorted(cov.seen)
    res["sample"] = {"skeleton": name, "unroll": unroll, "symbolic_sites": sorted(sym), "paths": res["paths"],
                     "queries": res["queries"], "schema_default": base.describe(),
                     "verdicts": {"discharged": res["discharged"], "violations": len(res["violations"]),
                                  "known": len(res["known"])}}
    return res


def _order_like(skel: Schema, asg):
    """Skeleton with concrete ids from the model (so the reference order is the path's order), widths symbolic."""
    structs = [(sn, [(fn, asg[fid] if isinstance(fid, str) else fid, t) for fn, fid, t in fs])
               for sn, fs in skel.structs]
    return Schema(structs=structs, enums=skel.enums, impls=skel.impls, top=skel.top)


def _sym_width(t, sym, skel):
    k = t[0]
    if k in ("u", "i"):
        return sym[t[1]] if isinstance(t[1], str) else t[1]
    if k == "enum":
        vals = skel.enums[t[1]]
        xs = [sym[v] if isinstance(v, str) else v for _, v in vals]
        if all(type(x) is int for x in xs):
            return max(1, max(xs).bit_length())
        cur = z3of(xs[0])
        for x in xs[1:]:
            cur = z3.If(z3of(x) > cur, z3of(x), cur)
        return SymInt._mk(_bitlen_expr(cur), 1, 47)
    if k == "arr":
        inner = _sym_width(t[1], sym, skel)
        return inner * t[2]
    if k == "f32":
        return 32
    if k == "f64":
        return 64
    return None


def run_c04(tier: str) -> int:
    rep = Report("C04", tier)
    bad = check_log2_contract()
    for b in bad:
        rep.inconclusive.append("libm log2 contract violated on this host: " + b)
    sk = skeletons(tier)
    cases = []
    for name, s in sk:
        for unroll in (True, False):
            if not unroll and name in ("arrays", "arr3"):
                continue  # arrays of structs are only defined with unrolling (no scalar leaf otherwise)
            cases.append((name, s, unroll, tier))
    rep.bounds = {
        "skeletons": [n for n, _ in sk],
        "symbolic": "field ids in [0, 2^31) pairwise distinct per struct (all orders via forking sort), integer widths "
                    "1..64 (type name with symbolic decimal suffix), enum maxima in [0, 2^32), encoder pre-state "
                    "(bitstart in [0, 2^40], stale encoding list)",
        "enumerated": "skeleton shapes (<= 8 leaves, nesting <= 3, arrays of scalars/structs/arrays), unroll_arrays both ways",
        "outside": "other skeletons; arrays of structs without unrolling; enum maxima >= 2^32",
    }
    rep.stubs = ["sorted", "int", "log2", "ceil", "range", "math", "max"]
    rep.assumptions = STUB_NOTE + ["history independence is shown as one inductive step: generate() from an arbitrary "
                                   "symbolic encoder state must give the layout that starts at bit 0"]
    for r in pmap(c04_case, cases):
        rep.merge(r)
        if rep.red_enough():
            break
    v = rep.vacuity
    if v.get("twin_reached", 0) != v.get("twin_expected", 0):
        rep.inconclusive.append(f"reachability twin failed: {v}")
    return rep.finish()
