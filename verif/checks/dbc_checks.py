"""C05 (generated DBC describes the packed layout) and C14 (oversize / variable-size CAN messages are rejected)."""
from __future__ import annotations

import itertools
import random

import z3

from ..common import Known, Report, pmap, seed, add_repo_paths, write_replay, run_replay
from ..dbcref import read_dbc, dbc_extract, layout_extract
from ..decide import decide, new_result, finish_engine
from ..fromfcp import parse
from ..pysym import (Engine, EngineLimit, SymInt, SymBool, SymAtom, AtomSpace, Coverage, ForkingRange, z3of, W,
                     bool_expr)
from ..pystubs import sym_ceil, enable_ratio, SymWidthName
from ..shapes import Schema, Ident, fixed_bits, is_fixed
from . import layout_checks


# ---------------------------------------------------------------- recording stand-ins for the cantools classes
class Rec:
    """Recording stand-in: remembers how it was constructed; arguments are read by *parameter name* of the class it
    replaces (positional or keyword, defaults included), and reading an attribute gives the argument of that name."""
    log = []
    _sig = None

    def __init__(self, *a, **k):
        self.__dict__["a"], self.__dict__["k"] = a, k
        Rec.log.append(self)

    def get(self, name, default=None):
        sig = type(self)._sig
        if sig is None:
            return self.k.get(name, default)
        try:
            b = sig.bind_partial(None, *self.a, **self.k)
        except TypeError:
            return self.k.get(name, default)
        if name in b.arguments:
            return b.arguments[name]
        p = sig.parameters.get(name)
        if p is not None and p.default is not p.empty:
            return p.default
        return default

    def __getattr__(self, name):
        if name.startswith("__"):
            raise AttributeError(name)
        missing = object()
        v = self.get(name, missing)
        if v is missing:
            raise AttributeError(name)
        return v


def rec_for(orig, base):
    """A recorder class for `orig` (signature taken from the real class)."""
    import inspect
    try:
        sig = inspect.signature(orig.__init__)
    except (TypeError, ValueError):
        sig = None
    return type(base.__name__, (base,), {"_sig": sig})


class RecSignal(Rec):
    pass


class RecMessage(Rec):
    pass


class RecNode(Rec):
    pass


class RecDatabase(Rec):
    def as_dbc_string(self, **k):
        return self


_ORIG = {}


def _setup_sym():
    add_repo_paths()
    layout_checks._setup()
    enable_ratio()
    from fcp_dbc import dbc_writer

    global _ORIG
    if not _ORIG:
        _ORIG.update({"CanSignal": dbc_writer.CanSignal, "CanMessage": dbc_writer.CanMessage, "CanNode": dbc_writer.CanNode,
                      "CanDatabase": dbc_writer.CanDatabase})
    dbc_writer.CanSignal = rec_for(_ORIG["CanSignal"], RecSignal)
    dbc_writer.CanMessage = rec_for(_ORIG["CanMessage"], RecMessage)
    dbc_writer.CanNode = rec_for(_ORIG["CanNode"], RecNode)
    dbc_writer.CanDatabase = rec_for(_ORIG["CanDatabase"], RecDatabase)
    dbc_writer.ceil = sym_ceil
    dbc_writer.range = ForkingRange
    dbc_writer.str = lambda x="": x if isinstance(x, Rec) else str(x)
    return dbc_writer


# ---------------------------------------------------------------- C05 part 1 / C14: symbolic layout through _make_signals
class FakeType:
    def __init__(self, signed):
        self.signed = signed

    def is_signed(self):
        return self.signed


class Piece:
    def __init__(self, name, bitstart, bitlength, endianess, signed, unit, ext):
        self.name, self.bitstart, self.bitlength, self.endianess = name, bitstart, bitlength, endianess
        self.type, self.unit, self.extended_data = FakeType(signed), unit, ext


def sym_layout_case(args):
    prop, n, endians, muxed, tier = args
    dbc_writer = _setup_sym()
    res = new_result()
    known = Known(prop)
    feats = {"desc": f"symbolic-layout n={n} endian={endians} mux={muxed}", "n": n}
    space = AtomSpace()
    lens, assume = [], []
    for i in range(n):
        v, c = SymInt.fresh(f"len{i}", 1, 64 if prop == "C05" else 200)
        lens.append(v)
        assume.append(c)
    signed = [z3.Bool(f"signed{i}") for i in range(n)]
    units = [SymAtom(f"unit{i}") for i in range(n)]
    muxc, c = SymInt.fresh("mux_count", 0, 5)
    assume.append(c)
    cov = Coverage()
    eng = Engine(timeout_ms=240000, max_paths=5000)

    def body():
        Rec.log = []
        pieces, pos = [], 0
        for i in range(n):
            ext = {}
            if muxed and i == n - 1:
                ext = {"mux_count": muxc, "mux_signal": "p0"}
            pieces.append(Piece(f"p{i}" if i else "p0", pos, lens[i], endians[i], SymBool(signed[i]), units[i], ext))
            pos = pos + lens[i]
        sigs, dlc = dbc_writer._make_signals(pieces, "T")
        return sigs, dlc, pos

    def mk(m):
        return {"kind": "dbc_symbolic_layout", "lengths": [m.eval(x.e, model_completion=True).as_long() for x in lens],
                "signed": [bool(z3.is_true(m.eval(s, model_completion=True))) for s in signed], "endians": list(endians),
                "muxed": muxed, "mux_count": m.eval(muxc.e, model_completion=True).as_long()}

    total = z3.BitVecVal(0, W)
    for x in lens:
        total = total + x.e
    env = {"v": {f"len{i}": x.e for i, x in enumerate(lens)}}
    try:
        with cov:
            paths = list(eng.explore(body, assume))
        for pi, (kind, out, pc) in enumerate(paths):
            ob = f"{feats['desc']}|path{pi}"
            if kind == "exc":
                # an error is right exactly when the message does not fit a CAN frame
                decide(eng, pc, total <= 64, prop=prop, ob_id=ob + "|reject<=>oversize", res=res, known=known,
                       features=feats, env=env, make_replay=mk,
                       what=f"_make_signals raised {type(out).__name__}: {str(out)[:80]} for a layout that fits 64 bits")
                continue
            sigs, dlc, pos = out
            decide(eng, pc, total > 64, prop=prop, ob_id=ob + "|accept=>fits", res=res, known=known, features=feats,
                   env=env, make_replay=mk, what="a layout wider than 64 bits was turned into a DBC message")
            cs = [z3.BoolVal(len(sigs) == n)]
            start = z3.BitVecVal(0, W)
            ends = []
            for i, s in enumerate(sigs[:n]):
                k = s
                exp_start = start + 7 if endians[i] == "big" else start
                cs.append(z3of(s.get("start")) == exp_start)
                cs.append(z3of(s.get("length")) == lens[i].e)
                cs.append(z3.BoolVal(k.get("byte_order") == ("big_endian" if endians[i] == "big" else "little_endian")))
                cs.append(bool_expr(k.get("is_signed")) == signed[i])
                cs.append(z3.BoolVal(k.get("unit") is units[i]))
                is_last_muxed = muxed and i == n - 1
                if is_last_muxed:
                    ids = k.get("multiplexer_ids")
                    cs.append(z3.BoolVal(k.get("multiplexer_signal") == "p0"))
                    if ids is None:
                        cs.append(z3.BoolVal(False))
                    else:
                        cs.append(muxc.e == len(ids))
                        cs.append(z3.BoolVal(list(ids) == list(range(len(ids)))))
                else:
                    cs.append(z3.BoolVal(k.get("multiplexer_ids") is None and k.get("multiplexer_signal") is None))
                cs.append(z3.BoolVal(bool(k.get("is_multiplexer")) == (muxed and i == 0)))
                # inside the message and (C14) pairwise disjoint
                ends.append((start, start + lens[i].e))
                start = start + lens[i].e
            cs.append(z3of(dlc) * 8 >= total)
            cs.append(z3of(dlc) * 8 < total + 8)
            for (s0, e0) in ends:
                cs.append(e0 <= z3of(dlc) * 8)
            decide(eng, pc, z3.Not(z3.And(*cs)), prop=prop, ob_id=ob + "|signal-table", res=res, known=known,
                   features=feats, env=env, make_replay=mk,
                   what="DBC signal table (start/length/order/sign/unit/mux/dlc) differs from the layout")
        res["vacuity"] = {"accept_paths": sum(1 for k, _, _ in paths if k == "ret"),
                          "reject_paths": sum(1 for k, _, _ in paths if k == "exc")}
    except EngineLimit as e:
        res["inconclusive"].append(f"{feats['desc']}: engine limit: {e}")
    finish_engine(res, eng)
    res["functions"] = sorted(cov.seen)
    res["sample"] = {"part": "symbolic layout through _make_signals", "pieces": n, "endianess": list(endians),
                     "muxed": muxed, "paths": res["paths"], "queries": res["queries"]}
    return res


# ---------------------------------------------------------------- C05 part 2: translation validation of the real artefact
def can_family(tier, sd=0):
    """CAN schemas: (name, Schema)."""
    out = []
    rng = random.Random(sd)

    def sch(name, fields, sigs=None, enums=None, structs=None, kv=None):
        fs = [(f"s{i}", i, t) if not (isinstance(t, tuple) and len(t) == 3 and isinstance(t[0], str) and isinstance(t[1], int) and isinstance(t[2], tuple)) else t
              for i, t in enumerate(fields)]
        s = Schema(structs=list(structs or []) + [("Msg", fs)], enums=dict(enums or {}), top="Msg",
                   impls=[("can", "Msg", None, dict({"id": 0x123, "device": "ecu"}, **(kv or {})), sigs or [])])
        out.append((name, s))

    E3 = {"E3": [("A", 0), ("B", 1), ("C", 5)]}
    E8 = {"E8": [("A", 0), ("Z", 200)]}
    E1 = {"E1": [("A", 0), ("B", 1)]}
    sch("u8_i8", [("u", 8), ("i", 8)])
    sch("odd_widths", [("u", 3), ("i", 13), ("u", 1), ("i", 7), ("u", 40)])
    sch("signed_first", [("i", 5), ("u", 11), ("i", 32)])
    sch("f32_mid", [("u", 8), ("f32",), ("i", 16)])
    sch("f64_only", [("f64",)])
    sch("f32_unaligned", [("u", 3), ("f32",), ("u", 5)])
    sch("enums", [("enum", "E3"), ("u", 5), ("enum", "E8"), ("enum", "E1")], enums=dict(E3, **E8, **E1))
    sch("nested", [("u", 4), ("struct", "In"), ("i", 9)], structs=[("In", [("p", 0, ("u", 5)), ("q", 1, ("i", 11))])])
    sch("nested2", [("struct", "Out"), ("u", 2)],
        structs=[("In", [("p", 1, ("u", 5)), ("q", 0, ("i", 6))]), ("Out", [("a", 0, ("struct", "In")), ("b", 1, ("f32",))])])
    sch("arrays", [("arr", ("u", 6), 3), ("arr", ("i", 9), 2), ("u", 1)])
    sch("array_of_struct", [("arr", ("struct", "In"), 2), ("u", 3)], structs=[("In", [("p", 0, ("u", 5)), ("q", 1, ("i", 11))])])
    sch("big_u16", [("u", 8), ("u", 16), ("u", 8)], sigs=[("s1", {"endianess": "big"})])
    sch("big_i32_u64part", [("i", 32), ("u", 16), ("i", 16)], sigs=[("s0", {"endianess": "big"}), ("s2", {"endianess": "big"})])
    sch("big_u64", [("u", 64)], sigs=[("s0", {"endianess": "big"})])
    sch("big_u8", [("u", 8), ("u", 8)], sigs=[("s1", {"endianess": "big"})])
    sch("mux", [("u", 8), ("u", 8), ("i", 12)], sigs=[("s1", {"mux_count": 4, "mux_signal": "s0"})])
    sch("mux2", [("u", 4), ("u", 16), ("i", 12)], sigs=[("s1", {"mux_count": 16, "mux_signal": "s0"}),
                                                       ("s2", {"mux_count": 2, "mux_signal": "s0"})])
    sch("ids_out_of_order", [("a", 2, ("u", 3)), ("b", 0, ("i", 13)), ("c", 1, ("u", 8))])
    sch("exactly_64", [("u", 31), ("i", 33)])
    sch("one_bit", [("u", 1)])
    sch("i1_fields", [("i", 1), ("u", 1), ("i", 1), ("arr", ("i", 1), 2), ("i", 2)])
    sch("derived_looking_names", [("s1", 0, ("u", 16)), ("s1_1", 1, ("u", 16)), ("s1_0", 2, ("u", 16))],
        sigs=[("s1", {"endianess": "big"})])
    same = Schema(structs=[("A", [("x", 0, ("u", 16)), ("y", 1, ("u", 8))])], top="A",
                  impls=[("can", "A", "First", {"id": 30, "device": "e"}, [("x", {"endianess": "big"})]),
                         ("can", "A", "Second", {"id": 31, "device": "e"}, [("y", {"mux_count": 2, "mux_signal": "x"})]),
                         ("can", "A", "Third", {"id": 32, "device": "e"}, [])])
    out.append(("one_struct_three_bindings_different_options", same))
    arrs = Schema(structs=[("Status", [("flags", 0, ("u", 8)), ("data", 1, ("arr", ("u", 8), 2))]),
                           ("Log", [("kind", 0, ("u", 8)), ("data", 1, ("arr", ("u", 16), 2))])], top="Status",
                  impls=[("can", "Status", None, {"id": 40, "device": "e"}, []), ("can", "Log", None, {"id": 41, "device": "e"}, [])])
    out.append(("same_named_arrays_two_bindings", arrs))
    # several buses / several messages
    multi = Schema(structs=[("A", [("x", 0, ("u", 8)), ("y", 1, ("i", 16))]), ("B", [("z", 0, ("f32",))]),
                            ("C", [("w", 0, ("u", 12)), ("v", 1, ("u", 4))])],
                   top="A",
                   impls=[("can", "A", None, {"id": 10, "bus": "bus1", "device": "ecu1"}, []),
                          ("can", "B", None, {"id": 11, "bus": "bus2", "device": "ecu2"}, []),
                          ("can", "C", "Cee", {"id": 2047, "bus": "bus1", "device": "ecu2"}, []),
                          ("can", "A", "A2", {"id": 12}, [])])
    out.append(("multi_bus", multi))
    two = Schema(structs=[("A", [("page", 0, ("u", 4)), ("val", 1, ("u", 12))]), ("B", [("page", 0, ("u", 8)), ("z", 1, ("i", 8))])],
                 top="A",
                 impls=[("can", "A", None, {"id": 20, "device": "ecu1"}, [("val", {"mux_count": 4, "mux_signal": "page"})]),
                        ("can", "B", None, {"id": 21, "device": "ecu1"}, [])])
    out.append(("mux_then_plain_same_name", two))
    if tier == "thorough":
        kinds = [("u", 1), ("u", 7), ("i", 2), ("i", 15), ("u", 24), ("f32",), ("i", 31)]
        for _ in range(60):
            fs, bits = [], 0
            while True:
                t = rng.choice(kinds)
                b = fixed_bits(Schema(structs=[]), t)
                if bits + b > 64 or len(fs) >= 6:
                    break
                fs.append(t)
                bits += b
            if fs:
                sch(f"random{len(out)}", fs)
    return out


def _layout(fcp, impl):
    from fcp.encoding import make_encoder, PackedEncoderContext

    enc = make_encoder("packed", fcp, PackedEncoderContext().with_unroll_arrays(True))
    return enc.generate(impl)


def _leaf_kind(v):
    n = type(v.type).__name__
    return {"UnsignedType": "u", "SignedType": "i", "FloatType": "f32", "DoubleType": "f64", "EnumType": "enum"}.get(n, n)


def c05_tv_case(args):
    name, schema, tier = args
    add_repo_paths()
    import fcp_dbc

    res = new_result()
    known = Known("C05")
    feats = {"desc": name, "schema": schema.describe()}
    text = schema.text()
    from ..prime import prime, decoy_text
    dtext = decoy_text(schema)
    prime(dtext, ("layout", "dbc"))
    fcp = parse(text)
    try:
        files = fcp_dbc.Generator().generate(fcp, {"output": "out"})
    except Exception as e:
        res["inconclusive"].append(f"{name}: DBC generation failed for a schema in the family: {type(e).__name__}: {e}")
        return res
    by_bus = {f["bus"]: read_dbc(f["contents"]) for f in files}
    frame = z3.BitVec("frame", 64)
    s = z3.Solver()
    s.set("timeout", 30000)
    nq = 0

    def report(what, witness=None, ob=""):
        path = write_replay("C05", {"kind": "dbc_tv", "schema_text": text, "property": "C05", "what": what,
                                    "frame": witness, "obligation": ob, "decoy_text": dtext})
        ok, t = run_replay(path)
        if ok:
            res["violations"].append({"replay": path, "ob": ob, "what": f"{what} :: {t[-200:]}"})
        elif ok is False:
            res["unconfirmed"].append(f"{ob}: {what}: replay did not reproduce ({t[-150:]})")
        else:
            res["inconclusive"].append(f"{ob}: replay failed: {t[-200:]}")

    impls = [i for i in fcp.impls if i.protocol == "can"]
    seen_msgs = {b: set() for b in by_bus}
    for impl in impls:
        bus = impl.fields.get("bus", "default")
        ob = f"{name}|{impl.name}"
        if bus not in by_bus:
            report(f"binding {impl.name} is on bus {bus} but no file for that bus was generated", ob=ob + "|bus")
            continue
        db = by_bus[bus]
        fid = impl.fields["id"]
        lay = _layout(fcp, impl)
        bits = lay[-1].bitstart + lay[-1].bitlength
        msg = db["messages"].get(fid)
        res["obligations"].append(ob + "|message")
        if msg is None or msg["name"] != impl.name or msg["dlc"] != (bits + 7) // 8 or len(msg["signals"]) != len(lay):
            report(f"message of binding {impl.name}: expected id {fid}, dlc {(bits + 7) // 8}, {len(lay)} signals; "
                   f"DBC has {None if msg is None else (msg['name'], msg['dlc'], len(msg['signals']))}", ob=ob + "|message")
            continue
        if msg["extended"] != (fid > 0x7FF):
            # BO_ ids carry the frame format in bit 31: an 11-bit id written as an extended frame is another frame
            report(f"message of binding {impl.name}: id {fid} is written as {'an extended (29-bit)' if msg['extended'] else 'a standard (11-bit)'} "
                   f"frame in the DBC (BO_ {fid | (0x80000000 if msg['extended'] else 0)})", ob=ob + "|message")
            continue
        res["discharged"] += 1
        seen_msgs[bus].add(fid)
        muxers = {v.extended_data.get("mux_signal") for v in lay if v.extended_data.get("mux_signal")}
        for v in lay:
            sname = str(v.name).replace("::", "_")
            sob = f"{ob}|{sname}"
            res["obligations"].append(sob)
            sg = msg["signals"].get(sname)
            if sg is None:
                report(f"layout leaf {v.name} has no signal in the DBC", ob=sob)
                continue
            kind = _leaf_kind(v)
            endian = v.extended_data.get("endianess") or "little"
            exp_float = {"f32": 32, "f64": 64}.get(kind)
            meta_bad = []
            if sg["signed"] != (kind == "i"):
                meta_bad.append(f"signed={sg['signed']}")
            if sg["float"] != exp_float:
                meta_bad.append(f"float marking={sg['float']} (leaf kind {kind})")
            if sg["unit"] != (v.unit or ""):
                meta_bad.append(f"unit={sg['unit']!r} expected {v.unit!r}")
            if sg["length"] != v.bitlength:
                meta_bad.append(f"length={sg['length']} expected {v.bitlength}")
            if sg["byte_order"] != endian:
                meta_bad.append(f"byte_order={sg['byte_order']} expected {endian}")
            if sg["scale"] != 1.0 or sg["offset"] != 0.0:
                meta_bad.append(f"scale/offset={sg['scale']},{sg['offset']}")
            mc = v.extended_data.get("mux_count")
            if mc is not None:
                ids = set()
                for a, b in sg["mux_ranges"] or ([(sg["mux_id"], sg["mux_id"])] if sg["mux_id"] is not None else []):
                    ids |= set(range(a, b + 1))
                if ids != set(range(mc)) or (sg["mux_signal"] or v.extended_data.get("mux_signal")) != v.extended_data.get("mux_signal"):
                    meta_bad.append(f"multiplexer ids {sorted(ids)} expected 0..{mc - 1}")
            elif sg["mux_id"] is not None or sg["mux_ranges"]:
                meta_bad.append("signal is multiplexed in the DBC but not in the schema")
            if sg["is_mux"] != (sname in muxers):
                meta_bad.append(f"multiplexer flag={sg['is_mux']}")
            # value semantics over all 2^64 frames
            a = dbc_extract(frame, sg)
            b = layout_extract(frame, v.bitstart, v.bitlength, endian)
            if a is None or b is None or a.size() != b.size():
                meta_bad.append("signal does not lie inside the frame / sizes differ")
                r = None
            else:
                s.push()
                s.add(a != b)
                r = s.check()
                nq += 1
                wit = None
                if r == z3.sat:
                    wit = s.model().eval(frame, model_completion=True).as_long()
                s.pop()
                if str(r) == "unknown":
                    res["inconclusive"].append(f"{sob}: solver unknown")
                    continue
                if r == z3.sat:
                    report(f"DBC signal {sname} ({sg['start']}|{sg['length']}@{sg['byte_order']}) reads other bits than "
                           f"layout leaf (bitstart {v.bitstart}, {v.bitlength} bits, {endian})", witness=wit, ob=sob)
                    continue
            if meta_bad:
                report(f"DBC signal {sname} of {impl.name}: " + "; ".join(meta_bad), ob=sob)
                continue
            res["discharged"] += 1
    # each bus file contains exactly the messages bound to that bus
    for bus, db in by_bus.items():
        ob = f"{name}|bus:{bus}"
        res["obligations"].append(ob)
        extra = set(db["messages"]) - {i.fields["id"] for i in impls if i.fields.get("bus", "default") == bus}
        if extra:
            report(f"bus file {bus} contains messages {sorted(extra)} that are not bound to it", ob=ob)
        else:
            res["discharged"] += 1
    res["queries"] += nq
    res["sample"] = {"part": "translation validation", "schema": name, "buses": sorted(by_bus),
                     "messages": sum(len(d["messages"]) for d in by_bus.values()), "equivalence_queries": nq,
                     "first_lines": files[0]["contents"].splitlines()[:0]}
    return res


# ---------------------------------------------------------------- C14 through write_dbc with symbolic widths
def c14_writer_case(args):
    skname, skel, tier = args
    dbc_writer = _setup_sym()
    from ..checks.layout_checks import _syms, concretize_skel, default_asg, _patch

    res = new_result()
    known = Known("C14")
    ids, ws, ms = _syms(skel)
    sym, assume = {}, []
    for n in ws:
        sym[n], c = SymInt.fresh(n, 1, 64)
        assume.append(c)
    for n in ms:
        sym[n], c = SymInt.fresh(n, 0, 255)
        assume.append(c)
    base = concretize_skel(skel, default_asg(skel))
    text = base.text()
    feats = {"desc": f"write_dbc/{skname}", "skeleton": skname}
    cov = Coverage()
    eng = Engine(timeout_ms=240000, max_paths=5000)

    def body():
        Rec.log = []
        fcp = parse(text)
        _patch(fcp, skel, sym)
        r = dbc_writer.write_dbc(fcp)
        return r, list(Rec.log)

    def total_of(fcp_skel):
        from ..layoutref import leaf_list
        from ..checks.layout_checks import _sym_width, _order_like
        ref = leaf_list(_order_like(skel, default_asg(skel)), "S", True, width_of=lambda t: _sym_width(t, sym, skel))
        tot = z3.BitVecVal(0, W)
        for hn, bn, t, w in ref:
            tot = tot + z3of(w)
        return tot, ref

    total, ref = total_of(skel)

    def mk(m):
        asg = dict(default_asg(skel))
        asg.update({k: m.eval(x.e, model_completion=True).as_signed_long() for k, x in sym.items()})
        return {"kind": "dbc_oversize", "schema_text": concretize_skel(skel, asg).text()}

    env = {"v": {k: x.e for k, x in sym.items()}}
    try:
        with cov:
            paths = list(eng.explore(body, assume))
        for pi, (kind, out, pc) in enumerate(paths):
            ob = f"{feats['desc']}|path{pi}"
            if kind == "exc":
                decide(eng, pc, total <= 64, prop="C14", ob_id=ob + "|reject=>oversize", res=res, known=known,
                       features=feats, env=env, make_replay=mk,
                       what=f"write_dbc raised {type(out).__name__} for a message that fits 64 bits ({skname})")
                continue
            r, log = out
            msgs = [x for x in log if isinstance(x, RecMessage)]
            if hasattr(r, "is_err") and r.is_err():
                decide(eng, pc, z3.Or(total <= 64, z3.BoolVal(bool(msgs))), prop="C14", ob_id=ob + "|err", res=res,
                       known=known, features=feats, env=env, make_replay=mk,
                       what=f"write_dbc returned Err for a fitting message / after emitting one ({skname})")
                continue
            decide(eng, pc, total > 64, prop="C14", ob_id=ob + "|accept=>fits", res=res, known=known, features=feats,
                   env=env, make_replay=mk, what=f"a CAN binding wider than 64 bits got a DBC message ({skname})")
            cs = []
            for mrec in msgs:
                sigs = mrec.get("signals", [])
                dlc = mrec.get("length")
                rng = [(z3of(s.get("start")), z3of(s.get("start")) + z3of(s.get("length"))) for s in sigs]
                for (a0, a1) in rng:
                    cs.append(a1 <= z3of(dlc) * 8)
                for (a0, a1), (b0, b1) in itertools.combinations(rng, 2):
                    cs.append(z3.Or(a1 <= b0, b1 <= a0))
            decide(eng, pc, z3.Not(z3.And(*cs)) if cs else z3.BoolVal(False), prop="C14", ob_id=ob + "|inside+disjoint",
                   res=res, known=known, features=feats, env=env, make_replay=mk,
                   what=f"a generated signal extends beyond its message or overlaps another ({skname})")
        res["vacuity"] = {"accept_paths": sum(1 for k, _, _ in paths if k == "ret"),
                          "reject_paths": sum(1 for k, _, _ in paths if k == "exc")}
    except EngineLimit as e:
        res["inconclusive"].append(f"{feats['desc']}: engine limit: {e}")
    finish_engine(res, eng)
    res["functions"] = sorted(cov.seen)
    res["sample"] = {"part": "write_dbc with symbolic widths", "skeleton": skname, "symbolic": sorted(sym),
                     "paths": res["paths"], "queries": res["queries"]}
    return res


def c14_cwriter_case(args):
    """The real can_c create_can_signals on the real packed layout with symbolic widths (CanSignal -> recorder):
    every signal inside 8*dlc bits, pairwise disjoint, dlc == ceil(total/8)."""
    skname, skel, tier = args
    _setup_sym()
    from ..checks.layout_checks import _syms, concretize_skel, default_asg, _patch, _sym_width, _order_like
    from ..layoutref import leaf_list
    import fcp_can_c.can_c_writer as cw
    from fcp.encoding import make_encoder, PackedEncoderContext

    if "cw.CanSignal" not in _ORIG:
        _ORIG["cw.CanSignal"] = cw.CanSignal
    cw.CanSignal = rec_for(_ORIG["cw.CanSignal"], RecSignal)
    cw.ceil = sym_ceil
    cw.max = __import__("verif.pysym", fromlist=["sym_max"]).sym_max
    cw.range = ForkingRange
    res = new_result()
    known = Known("C14")
    ids, ws, ms = _syms(skel)
    sym, assume = {}, []
    for n in ws:
        sym[n], c = SymInt.fresh(n, 1, 64)
        assume.append(c)
    for n in ms:
        sym[n], c = SymInt.fresh(n, 0, 255)
        assume.append(c)
    text = concretize_skel(skel, default_asg(skel)).text()
    feats = {"desc": f"can_c create_can_signals/{skname}", "skeleton": skname}
    ref = leaf_list(_order_like(skel, default_asg(skel)), "S", True, width_of=lambda t: _sym_width(t, sym, skel))
    total = z3.BitVecVal(0, W)
    for hn, bn, t, w in ref:
        total = total + z3of(w)
    cov = Coverage()
    eng = Engine(timeout_ms=240000, max_paths=5000)

    def body():
        fcp = parse(text)
        _patch(fcp, skel, sym)
        impl = [i for i in fcp.impls if i.protocol == "can"][0]
        enc = make_encoder("packed", fcp, PackedEncoderContext().with_unroll_arrays(True)).generate(impl)
        sigs, dlc = cw.create_can_signals(enc)
        return sigs, dlc

    def mk(m):
        asg = dict(default_asg(skel))
        asg.update({k: m.eval(x.e, model_completion=True).as_signed_long() for k, x in sym.items()})
        return {"kind": "c_signal_table", "schema_text": concretize_skel(skel, asg).text()}

    env = {"v": {k: x.e for k, x in sym.items()}}
    try:
        with cov:
            paths = list(eng.explore(body, assume + [total <= 64]))
        for pi, (kind, out, pc) in enumerate(paths):
            ob = f"{feats['desc']}|path{pi}"
            if kind == "exc":
                res["inconclusive"].append(f"{ob}: create_can_signals raised {type(out).__name__}: {str(out)[:120]}")
                continue
            sigs, dlc = out
            cs = [z3of(dlc) * 8 >= total, z3of(dlc) * 8 < total + 8]
            rng = [(z3of(s.get("start_bit")), z3of(s.get("start_bit")) + z3of(s.get("bit_length"))) for s in sigs]
            for a0, a1 in rng:
                cs.append(a1 <= z3of(dlc) * 8)
            for (a0, a1), (b0, b1) in itertools.combinations(rng, 2):
                cs.append(z3.Or(a1 <= b0, b1 <= a0))
            decide(eng, pc, z3.Not(z3.And(*cs)), prop="C14", ob_id=ob, res=res, known=known, features=feats, env=env,
                   make_replay=mk, what=f"generated C signal table: a signal extends beyond dlc bytes / overlaps / dlc != ceil(bits/8) ({skname})")
    except EngineLimit as e:
        res["inconclusive"].append(f"{feats['desc']}: engine limit: {e}")
    finish_engine(res, eng)
    res["functions"] = sorted(cov.seen)
    res["sample"] = {"part": "can_c create_can_signals with symbolic widths", "skeleton": skname, "paths": res["paths"]}
    return res


def c14_skeletons():
    can = [("can", "S", None, {"id": 1, "device": "ecu"}, [])]
    E = {"E": [("A", 0), ("Z", "m0")]}
    out = []
    out.append(("flat3", Schema(structs=[("S", [("a", 0, ("u", "w0")), ("b", 1, ("i", "w1")), ("c", 2, ("u", "w2"))])], impls=can)))
    out.append(("flat5_float", Schema(structs=[("S", [("a", 0, ("u", "w0")), ("b", 1, ("f32",)), ("c", 2, ("i", "w1")),
                                                      ("d", 3, ("enum", "E")), ("e", 4, ("u", "w2"))])], enums=E, impls=can)))
    out.append(("nested_excess", Schema(structs=[("In", [("p", 0, ("u", "w1")), ("q", 1, ("i", "w2"))]),
                                                 ("S", [("a", 0, ("u", "w0")), ("b", 1, ("struct", "In")), ("c", 2, ("u", 3))])],
                                        impls=can)))
    out.append(("array_excess", Schema(structs=[("S", [("a", 0, ("arr", ("u", "w0"), 3)), ("b", 1, ("i", "w1"))])], impls=can)))
    out.append(("array_of_struct", Schema(structs=[("In", [("p", 0, ("u", "w1")), ("q", 1, ("u", 2))]),
                                                   ("S", [("a", 0, ("arr", ("struct", "In"), 2)), ("b", 1, ("u", "w0"))])],
                                          impls=can)))
    out.append(("nine_leaves", Schema(structs=[("S", [(f"f{i}", i, ("u" if i % 2 else "i", f"w{i % 3}")) for i in range(9)])],
                                      impls=can)))
    return out


# concrete generator runs: variable-size fields anywhere, and sizes around/beyond the limit through the real commands
VARIABLE = [("str",), ("dyn", ("u", 8)), ("opt", ("u", 8)), ("arr", ("str",), 2), ("dyn", ("struct", "In"))]


def c14_concrete_cases():
    cases = []
    In = ("In", [("p", 0, ("u", 5)), ("q", 1, ("i", 11))])
    for vt in VARIABLE:
        for pos in range(3):
            fs = [("u", 8), ("i", 16)]
            fs.insert(pos, vt)
            s = Schema(structs=[In, ("S", [(f"f{i}", i, t) for i, t in enumerate(fs)])],
                       impls=[("can", "S", None, {"id": 5, "device": "ecu"}, [])])
            cases.append(("variable", s, False))
        s = Schema(structs=[("V", [("x", 0, vt if vt[0] != "dyn" or vt[1][0] != "struct" else ("str",))]), In,
                            ("S", [("a", 0, ("u", 8)), ("v", 1, ("struct", "V"))])],
                   impls=[("can", "S", None, {"id": 5, "device": "ecu"}, [])])
        cases.append(("variable_nested", s, False))
    for widths in ([64, 1], [1, 64], [32, 32, 8], [8, 32, 32], [64, 64], [33, 16, 16], [64], [32, 32], [57, 7], [57, 8], [20] * 10):
        fs = [("u", w) for w in widths]
        s = Schema(structs=[("S", [(f"f{i}", i, t) for i, t in enumerate(fs)])],
                   impls=[("can", "S", None, {"id": 5, "device": "ecu"}, [])])
        cases.append(("size", s, sum(widths) <= 64))
    s = Schema(structs=[In, ("S", [("a", 0, ("arr", ("struct", "In"), 4)), ("b", 1, ("u", 1))])],
               impls=[("can", "S", None, {"id": 5, "device": "ecu"}, [])])
    cases.append(("size", s, False))
    s = Schema(structs=[("S", [("a", 0, ("f64",)), ("b", 1, ("u", 1))])], impls=[("can", "S", None, {"id": 5, "device": "ecu"}, [])])
    cases.append(("size", s, False))
    # a small binding first, then an oversize / variable-size one with a same-named array (one encoder serves both)
    for et in (("u", 32), ("str",), ("opt", ("u", 16))):
        s = Schema(structs=[("Status", [("flags", 0, ("u", 8)), ("data", 1, ("arr", ("u", 8), 2))]),
                            ("Log", [("kind", 0, ("u", 8)), ("data", 1, ("arr", et, 2))])], top="Status",
                   impls=[("can", "Status", None, {"id": 40, "device": "ecu"}, []),
                          ("can", "Log", None, {"id": 41, "device": "ecu"}, [])])
        cases.append(("second_binding", s, False))
    # the documented (and by the packed layout ignored) signal option `bitstart`, written non-monotonically: the
    # message is still as wide as the sum of its fields
    for widths, sigs, fits in (([60, 8, 8], [("f1", {"bitstart": 60}), ("f2", {"bitstart": 16})], False),
                               ([8, 60], [("f0", {"bitstart": 60}), ("f1", {"bitstart": 0})], False),
                               ([8, 8], [("f1", {"bitstart": 32})], True)):
        s = Schema(structs=[("S", [(f"f{i}", i, ("u", w)) for i, w in enumerate(widths)])],
                   impls=[("can", "S", None, {"id": 5, "device": "ecu"}, sigs)])
        cases.append(("size_bitstart_option", s, fits))
    # fields declared out of id order: the last *declared* field is not the last one on the wire
    for fs, fits in (([("f2", 2, ("u", 8)), ("f0", 0, ("u", 32)), ("f1", 1, ("u", 32))], False),
                     ([("f1", 1, ("u", 60)), ("f2", 2, ("u", 8)), ("f0", 0, ("u", 4))], False),
                     ([("f2", 2, ("u", 8)), ("f0", 0, ("u", 32)), ("f1", 1, ("u", 24))], True)):
        s = Schema(structs=[("S", fs)], impls=[("can", "S", None, {"id": 5, "device": "ecu"}, [])])
        cases.append(("size_declared_out_of_id_order", s, fits))
    # an enum decides whether the message fits (the warm-up generation sees a same-named narrower enum)
    for w0, fits in ((56, False), (55, True)):
        s = Schema(structs=[("S", [("a", 0, ("u", w0)), ("e", 1, ("enum", "Mode"))])],
                   enums={"Mode": [("Off", 0), ("On", 1), ("Max", 300)]},
                   impls=[("can", "S", None, {"id": 5, "device": "ecu"}, [])])
        cases.append(("size_enum", s, fits))
    # renamed bindings ('as'), several bindings of one struct
    s = Schema(structs=[("S", [("a", 0, ("u", 64)), ("b", 1, ("u", 8))])],
               impls=[("can", "S", "BigFrame", {"id": 5, "device": "ecu"}, [])])
    cases.append(("size_renamed", s, False))
    s = Schema(structs=[("S", [("a", 0, ("u", 60)), ("b", 1, ("u", 4))])],
               impls=[("can", "S", "Fits", {"id": 5, "device": "ecu"}, []), ("can", "S", "Fits2", {"id": 6, "device": "ecu"}, [])])
    cases.append(("size_renamed", s, True))
    return cases


def c14_concrete_case(args):
    kind, schema, fits, tier = args
    add_repo_paths()
    from .gating_checks import real_plugin_run

    res = new_result()
    text = schema.text()
    for gen in ("dbc", "can_c"):
        ob = f"concrete/{gen}/{kind}/{schema.describe()}"
        res["obligations"].append(ob)
        from ..prime import decoy_text
        dtext = decoy_text(schema)
        p, before, after = real_plugin_run(gen, text, fits, warmup=True, warmup_text=dtext)
        import json
        try:
            st = json.loads((p.stdout.strip().splitlines() or ["{}"])[-1])
        except Exception:
            st = {"ok": False}
        bad = None
        if not fits:
            if st.get("ok"):
                bad = f"'{gen}' generation succeeded for a CAN binding that cannot be a frame ({kind})"
            elif before != after:
                bad = f"'{gen}' generation failed but changed the output directory: {sorted(set(after) ^ set(before))[:3]}"
        else:
            if not st.get("ok"):
                bad = f"'{gen}' generation failed for a binding of <= 64 bits: {p.stderr[-160:]}"
        if bad:
            path = write_replay("C14", {"kind": "c14_concrete", "generator": gen, "schema_text": text, "fits": fits, "warmup": True,
                                        "warmup_text": dtext,
                                        "property": "C14", "what": bad})
            ok, t = run_replay(path)
            if ok:
                res["violations"].append({"replay": path, "ob": ob, "what": f"{bad} on {schema.describe()}"})
            else:
                res["unconfirmed"].append(f"{ob}: {bad} (did not replay)")
        else:
            res["discharged"] += 1
    res["sample"] = {"part": "real generators, concrete", "kind": kind, "schema": schema.describe(), "fits": fits}
    return res


def _dispatch(args):
    k = args[0]
    if k == "sym":
        return sym_layout_case(args[1:])
    if k == "tv":
        return c05_tv_case(args[1:])
    if k == "writer":
        return c14_writer_case(args[1:])
    if k == "cwriter":
        return c14_cwriter_case(args[1:])
    return c14_concrete_case(args[1:])


def _sym_cases(prop, tier):
    cases = []
    for n in (1, 2, 3) if tier == "quick" else (1, 2, 3, 4):
        for endians in itertools.product(("little", "big"), repeat=n):
            if tier == "quick" and n == 3 and endians.count("big") > 1:
                continue
            if prop == "C14" and "big" in endians:
                continue
            for muxed in ((False, True) if n > 1 else (False,)):
                cases.append(("sym", prop, n, endians, muxed, tier))
    return cases


def run_c05(tier: str) -> int:
    rep = Report("C05", tier, level="translation_validation")
    fam = can_family(tier, seed())
    cases = [("tv", n, s, tier) for n, s in fam] + _sym_cases("C05", tier)
    rep.bounds = {
        "translation_validation": f"{len(fam)} CAN schemas (widths, signed, enums of 1..8 bits, floats at aligned and "
                                  "unaligned offsets, nesting, arrays, big-endian byte-aligned signals, muxed signals, "
                                  "several buses/devices, 'as' renames); per signal one z3 query over all 2^64 frames",
        "symbolic_mapping": "_make_signals on layouts of 1..3 (thorough: 4) pieces with symbolic lengths 1..64, "
                            "symbolic signedness/unit/mux_count, byte order enumerated, cantools classes replaced by recorders",
        "outside": "cantools' own text emission (exercised concretely, it produces the artefact), value tables and "
                   "comments, big-endian signals that are not byte aligned",
    }
    rep.stubs = ["cantools Signal/Message/Database/Node -> recorders (symbolic part only)", "ceil", "range"]
    rep.assumptions = [
        "DBC semantics (Intel/Motorola bit numbering, sign, SIG_VALTYPE_, SG_MUL_VAL_) implemented in verif/dbcref.py "
        "from the DBC format; the witness frame of a failed query is replayed through cantools.database.load_string + decode",
        "layout semantics: little = bits [bitstart, bitstart+len), big (byte aligned) = the same bytes, most significant first",
        "the reference layout is the real PackedEncoder output (its correctness is C04's obligation)"]
    for r in pmap(_dispatch, cases):
        rep.merge(r)
        if rep.red_enough():
            break
    rep.extra["programs"] = len(fam)
    return rep.finish()


def run_c14(tier: str) -> int:
    rep = Report("C14", tier)
    cases = [("writer", n, s, tier) for n, s in c14_skeletons()] + _sym_cases("C14", tier)
    cases += [("cwriter", n, s, tier) for n, s in c14_skeletons()
              if tier == "thorough" or n not in ("nine_leaves", "flat5_float")]
    cases += [("concrete", k, s, f, tier) for k, s, f in c14_concrete_cases()]
    rep.bounds = {
        "symbolic_widths": "write_dbc on skeletons (flat, nested, arrays, arrays of structs, 9 leaves) with every "
                           "integer width symbolic in 1..64 and enum maxima in 0..255: total > 64 <=> error, no message recorded; "
                           "otherwise every signal inside 8*dlc bits and pairwise disjoint",
        "symbolic_layout": "_make_signals on tilings of 1..3 pieces with symbolic lengths 1..200",
        "concrete": "real 'dbc' and 'can_c' generation through GeneratorManager.generate into a temp directory for "
                    "variable-size fields (str, [T], Optional, [str,2], nested) at every position and sizes 57..200 bits",
        "outside": "the C writer with symbolic widths (renders widths into text: C boundary); its size gate with symbolic "
                   "widths is C09's 'size' skeletons, its signal tables per schema are C06's",
    }
    rep.stubs = ["cantools classes -> recorders", "ceil", "range", "sorted/log2 as in C04"]
    rep.assumptions = ["an exception escaping the generation command counts as 'fails with an error'",
                       "the concrete generator runs are conformance runs; the deciding step for sizes is the symbolic part"]
    for r in pmap(_dispatch, cases):
        rep.merge(r)
        if rep.red_enough():
            break
    if rep.vacuity.get("accept_paths", 0) == 0 or rep.vacuity.get("reject_paths", 0) == 0:
        rep.inconclusive.append(f"vacuity: need accepting and rejecting paths, got {rep.vacuity}")
    return rep.finish()
