"""C15: permuting the declaration order of fields (ids fixed) changes no back end's output.

Python parts (pysym): serde bytes of S and of its permuted twin are equal for all values; the packed layout with
symbolic widths is equal; the DBC text is equal.  Generated C / C++ are compared through llsym (see c15_native)."""
from __future__ import annotations

import itertools
import random

import z3

from .. import refspec
from ..common import Known, Report, pmap, seed, add_repo_paths
from ..decide import decide, new_result, finish_engine
from ..fromfcp import parse
from ..pysym import Engine, EngineLimit, SymInt, Coverage, z3of, W
from ..shapes import Schema, single, is_fixed, fixed_bits
from ..values import Inst, instances, to_json
from . import serde_checks
from . import layout_checks


def base_shapes(tier):
    """Struct shapes whose field ids are not in declaration order; (name, Schema)."""
    E = {"E5": [("A", 0), ("B", 1), ("Z", 5)]}
    out = []
    out.append(("ints3", single([("a", 2, ("u", 3)), ("b", 0, ("i", 13)), ("c", 1, ("u", 8))])))
    out.append(("mixed4", single([("a", 7, ("f32",)), ("b", 1, ("u", 5)), ("c", 4, ("enum", "E5")), ("d", 2, ("i", 9))], E)))
    out.append(("dyn3", single([("s", 3, ("str",)), ("o", 0, ("opt", ("u", 7))), ("v", 1, ("dyn", ("i", 4)))])))
    out.append(("nested", Schema(structs=[("In", [("q", 4, ("i", 11)), ("p", 2, ("u", 5)), ("r", 3, ("f32",))]),
                                          ("S", [("y", 1, ("u", 2)), ("x", 0, ("struct", "In")),
                                                 ("z", 5, ("arr", ("struct", "In"), 2))])])))
    out.append(("can_nested", Schema(structs=[("In", [("q", 4, ("i", 11)), ("p", 2, ("u", 5)), ("r", 3, ("enum", "E5"))]),
                                              ("S", [("y", 1, ("u", 2)), ("x", 0, ("struct", "In")),
                                                     ("z", 5, ("arr", ("struct", "In"), 2)), ("w", 3, ("i", 3))])],
                                     enums=E)))
    out.append(("big_ids", single([("a", 9007199254740993, ("u", 3)), ("b", 9007199254740992, ("i", 5)),
                                   ("c", 2 ** 31, ("u", 8)), ("d", 0, ("u", 1))])))
    out.append(("arr_f64", single([("a", 1, ("arr", ("u", 6), 3)), ("b", 0, ("f64",)), ("c", 9, ("u", 1))])))
    if tier == "thorough":
        out.append(("five", single([("a", 4, ("u", 1)), ("b", 3, ("i", 7)), ("c", 2, ("u", 16)), ("d", 1, ("f32",)),
                                    ("e", 0, ("enum", "E5"))], E)))
        out.append(("opt_struct", Schema(structs=[("In", [("q", 1, ("str",)), ("p", 0, ("u", 5))]),
                                                  ("S", [("k", 2, ("opt", ("struct", "In"))), ("j", 0, ("u", 3)),
                                                         ("l", 1, ("dyn", ("struct", "In")))])])))
    return out


def permutations_of(schema: Schema, tier, rng):
    """Declaration-order twins: every struct's field list permuted (all permutations of the top struct, inner
    structs reversed/rotated alongside)."""
    top = schema.struct(schema.top)
    perms = list(itertools.permutations(range(len(top))))
    if len(perms) > 24:
        perms = rng.sample(perms, 24)
    out = []
    for k, p in enumerate(perms):
        structs = []
        for sn, fs in schema.structs:
            if sn == schema.top:
                structs.append((sn, [fs[i] for i in p]))
            else:
                fs2 = list(fs)
                if k % 3 == 1:
                    fs2 = fs2[::-1]
                elif k % 3 == 2:
                    fs2 = fs2[1:] + fs2[:1]
                structs.append((sn, fs2))
        tw = Schema(structs=structs, enums=schema.enums, impls=schema.impls, top=schema.top)
        if tw.text() != schema.text():
            out.append(tw)
    return out


def c15_serde_case(args):
    name, schema, twin, tier = args
    serde = serde_checks._setup()
    res = new_result()
    known = Known("C15")
    from ..prime import prime, decoy_text
    prime(decoy_text(twin), ("serde", "layout"))
    fA, fB = parse(schema.text()), parse(twin.text())
    top = schema.top
    T = ("struct", top)
    feats = {"desc": f"{name}: {schema.describe()} vs declaration order {[f for f, _, _ in twin.struct(top)]}",
             "part": "serde"}
    cov = Coverage()
    for ii, inst in enumerate(instances(schema, tier)):
        eng = Engine(timeout_ms=240000 if tier == "quick" else 600000, max_paths=2000)

        def body():
            a = serde.encode(fA, top, inst.value)
            b = serde.encode(fB, top, inst.value)
            da = serde.decode(fA, top, list(a))
            db = serde.decode(fB, top, list(a))
            return a, b, da, db

        def mk(m):
            d = serde_checks._replay_payload("serde_permuted", schema, inst, m)
            d["twin_text"] = twin.text()
            canon = refspec.canon_bytes(schema, T, inst.value)
            d["expected_bytes"] = [m.eval(b, model_completion=True).as_long() for b in canon]
            return d

        try:
            for pi, (kind, out, pc) in enumerate(serde_checks._explore(eng, body, inst.assume, cov)):
                ob = f"{feats['desc']}|inst{ii}|path{pi}|serde"
                if kind == "exc":
                    decide(eng, pc, z3.BoolVal(True), prop="C15", ob_id=ob, res=res, known=known, features=feats,
                           env={}, make_replay=mk, what=f"codec raised {type(out).__name__}: {out} on {feats['desc']}")
                    continue
                a, b, da, db = out
                if len(a) != len(b):
                    viol = z3.BoolVal(True)
                else:
                    eqs = [z3of(x) == z3of(y) for x, y in zip(a, b)]
                    eqs.append(refspec.eq_value(schema, T, da, db))  # both twins decode the bytes to the same value
                    viol = z3.Not(z3.And(*eqs))
                decide(eng, pc, viol, prop="C15", ob_id=ob, res=res, known=known, features=feats,
                       env=serde_checks._env(inst), make_replay=mk,
                       what=f"Python codec bytes depend on the declaration order on {feats['desc']}")
        except EngineLimit as e:
            res["inconclusive"].append(f"{feats['desc']}: engine limit: {e}")
        finish_engine(res, eng)
    res["functions"] = sorted(cov.seen)
    res["sample"] = {"part": "serde", "schema": schema.describe(),
                     "twin_declaration_order": [f for f, _, _ in twin.struct(top)], "paths": res["paths"],
                     "queries": res["queries"]}
    return res


class _Skip(Exception):
    pass


def _can_variant(schema: Schema):
    """Fixed-size variant bound to CAN (for layout/DBC): None if the shape has variable-size parts."""
    if not is_fixed(schema, ("struct", schema.top)):
        return None
    return Schema(structs=schema.structs, enums=schema.enums, top=schema.top,
                  impls=[("can", schema.top, None, {"id": 10, "device": "ecu"}, [])])


def c15_layout_case(args):
    """Layout and DBC of the CAN-bound fixed-size shapes: equal for the twin (widths made symbolic where ints)."""
    name, schema, twin, tier = args
    layout_checks._setup()
    add_repo_paths()
    from fcp.encoding import make_encoder, PackedEncoderContext
    from ..pystubs import SymWidthName

    res = new_result()
    known = Known("C15")
    A, B = _can_variant(schema), _can_variant(twin)
    feats = {"desc": f"{name}: layout/DBC vs declaration order {[f for f, _, _ in twin.struct(twin.top)]}",
             "part": "layout"}
    cov = Coverage()
    # symbolic widths: every integer field type u<N>/i<N> of every struct gets N symbolic in 1..64, shared by both twins
    sym, assume = {}, []

    def patch(fcp, sch):
        def pt(ft, t, key):
            if t[0] in ("u", "i"):
                if key not in sym:
                    sym[key], c = SymInt.fresh("w_" + key, 1, 64)
                    assume.append(c)
                ft.name = SymWidthName(t[0], sym[key])
            elif t[0] == "arr":
                pt(ft.underlying_type, t[1], key)
        for sn, fs in sch.structs:
            st = fcp.get_struct(sn).unwrap()
            byname = {f.name: f for f in st.fields}
            for fn, fid, t in fs:
                pt(byname[fn].type, t, f"{sn}.{fn}")

    from ..prime import prime, decoy_text
    prime(decoy_text(B), ("layout", "serde", "dbc"))
    fA, fB = parse(A.text()), parse(B.text())
    patch(fA, A)
    patch(fB, B)
    eng = Engine(timeout_ms=240000 if tier == "quick" else 600000, max_paths=2000)

    def body():
        outs = []
        for f in (fA, fB):
            impl = [i for i in f.impls if i.protocol == "can"][0]
            enc = make_encoder("packed", f, PackedEncoderContext().with_unroll_arrays(True))
            outs.append([(str(v.name), v.bitstart, v.bitlength) for v in enc.generate(impl)])
        return outs

    def mk(m):
        asg = {k: m.eval(x.e, model_completion=True).as_signed_long() for k, x in sym.items()}

        def conc(sch):
            def ct(t, key):
                if t[0] in ("u", "i"):
                    return (t[0], asg.get(key, t[1]))
                if t[0] == "arr":
                    return ("arr", ct(t[1], key), t[2])
                return t
            return Schema(structs=[(sn, [(fn, fid, ct(t, f"{sn}.{fn}")) for fn, fid, t in fs]) for sn, fs in sch.structs],
                          enums=sch.enums, impls=sch.impls, top=sch.top)
        return {"kind": "permuted_layout", "schema_text": conc(A).text(), "twin_text": conc(B).text()}

    try:
        with cov:
            paths = list(eng.explore(body, assume))
        for pi, (kind, out, pc) in enumerate(paths):
            ob = f"{feats['desc']}|path{pi}|layout"
            if kind == "exc":
                res["inconclusive"].append(f"{ob}: layout raised {type(out).__name__}: {out}")
                continue
            la, lb = out
            if [n for n, _, _ in la] != [n for n, _, _ in lb]:
                viol = z3.BoolVal(True)
            else:
                eqs = []
                for (_, s1, l1), (_, s2, l2) in zip(la, lb):
                    eqs += [z3of(s1) == z3of(s2), z3of(l1) == z3of(l2)]
                viol = z3.Not(z3.And(*eqs))
            decide(eng, pc, viol, prop="C15", ob_id=ob, res=res, known=known, features=feats,
                   env={"v": {k: x.e for k, x in sym.items()}}, make_replay=mk,
                   what=f"packed layout depends on the declaration order on {feats['desc']}")
    except EngineLimit as e:
        res["inconclusive"].append(f"{feats['desc']}: engine limit: {e}")
    finish_engine(res, eng)
    # DBC text (concrete artefact of the real generator): equal for the twin
    try:
        import fcp_dbc

        if fixed_bits(A, ("struct", A.top)) > 64:
            raise _Skip()
        ta = fcp_dbc.Generator().generate(parse(A.text()), {"output": "out"})
        tb = fcp_dbc.Generator().generate(parse(B.text()), {"output": "out"})
        ob = f"{feats['desc']}|dbc"
        res["obligations"].append(ob)
        if [(r["bus"], r["contents"]) for r in ta] != [(r["bus"], r["contents"]) for r in tb]:
            from ..common import write_replay, run_replay
            path = write_replay("C15", {"kind": "permuted_dbc", "schema_text": A.text(), "twin_text": B.text(),
                                        "property": "C15"})
            ok, text = run_replay(path)
            if ok:
                res["violations"].append({"replay": path, "what": "generated DBC depends on the declaration order: "
                                          + text[-200:], "ob": ob})
            else:
                res["unconfirmed"].append(f"{ob}: DBC differs but replay did not reproduce")
        else:
            res["discharged"] += 1
    except _Skip:
        pass  # wider than a CAN frame: no DBC exists for it (C14); only the layout is compared
    except Exception as e:
        res["inconclusive"].append(f"{feats['desc']}: DBC generation failed: {type(e).__name__}: {e}")
    res["functions"] = sorted(cov.seen)
    res["sample"] = {"part": "layout+dbc", "schema": A.describe(),
                     "twin_declaration_order": [f for f, _, _ in twin.struct(twin.top)],
                     "symbolic_widths": sorted(sym), "paths": res["paths"]}
    return res


def _dispatch(args):
    part = args[0]
    if part == "serde":
        return c15_serde_case(args[1:])
    if part == "layout":
        return c15_layout_case(args[1:])
    from . import order_native
    return order_native.c15_native_case(args[1:])


def run_c15(tier: str) -> int:
    rep = Report("C15", tier)
    rng = random.Random(seed())
    cases = []
    shapes = base_shapes(tier)
    ntw = 0
    for name, sch in shapes:
        tws = permutations_of(sch, tier, rng)
        if tier == "quick":
            tws = tws[:6]
        for tw in tws:
            ntw += 1
            cases.append(("serde", name, sch, tw, tier))
            if _can_variant(sch) is not None:
                cases.append(("layout", name, sch, tw, tier))
    from . import order_native
    cases += order_native.cases(shapes, lambda sch: permutations_of(sch, tier, random.Random(seed())), tier)
    native = True
    rep.bounds = {
        "shapes": [n for n, _ in shapes],
        "permutations": "all permutations of the top struct's declarations (<= 24, quick: first 6), inner structs "
                        "reversed/rotated alongside; field ids fixed",
        "values": "all in-range values (symbolic) for the codec; integer widths 1..64 symbolic for the layout",
        "back_ends": ["python serde", "packed layout", "DBC text"] + (["generated C", "generated C++"] if native else []),
        "outside": "shapes not listed; C13's run-time C++ codec",
    }
    rep.stubs = serde_checks.STUBS
    rep.assumptions = serde_checks.STUB_NOTE + [
        "which order is the right one is pinned by C02 (canonical bytes, ascending id); here only invariance is asked",
        "DBC text equality is a concrete comparison of the real generator's output for both twins"]
    for r in pmap(_dispatch, cases):
        rep.merge(r)
        if rep.red_enough():
            break
    rep.extra["twins"] = ntw
    return rep.finish()
