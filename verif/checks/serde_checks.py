"""C01 / C02 / C16: the real fcp.serde.encode/decode under pysym."""
from __future__ import annotations

import os
import time

import z3

from .. import refspec
from ..common import Known, Report, pmap, seed, add_repo_paths
from ..decide import decide, new_result, finish_engine
from ..fromfcp import parse
from ..pysym import (Engine, EngineLimit, SymInt, SymStr, SymByteArray, Coverage, ForkingRange, WorkBound, install,
                     concretize, W, z3of)
from ..shapes import Schema, codec_family, has_kind, is_fixed
from ..values import Inst, instances, to_json

STUBS = ["int", "float", "bytearray", "bytes", "ord", "chr", "struct", "range", "max", "min", "sorted", "sum"]
WORK_BUDGET = 20000  # loop iterations per encode+decode of one instance (WorkBound -> reported, not silently cut)


def _red(res):
    """The case already has counterexamples: no need to explore it further."""
    return len(res["violations"]) + len(res["unconfirmed"]) + res.get("violations_unreplayed", 0) >= 3


def decode_budget(nbytes):
    """Loop iterations a decoder may spend on nbytes of input: bits read (8n) plus container/element loops."""
    return 64 * (nbytes + 8)


def _explore(eng, body, assume, cov):
    """Lazy exploration with coverage recording and the work budget reset afterwards."""
    it = eng.explore(body, assume)
    while True:
        try:
            with cov:
                item = next(it)
        except StopIteration:
            ForkingRange.work = None
            return
        yield item


STUB_NOTE = [
    "builtins rebound in fcp.serde's namespace at harness time (no repository file edited): " + ", ".join(STUBS),
    "struct.pack/unpack('f'|'d'): native little-endian IEEE-754 image (x86-64 host); f32 values are not signalling NaNs",
    "bytearray(seq): same ints, each must be 0..255 else ValueError (the range test is a symbolic branch)",
    "sorted(): insertion sort through proxy comparisons (forks over feasible orders, stable)",
    "range(n): forks on i < n when n is symbolic",
]


def _setup():
    add_repo_paths()
    from fcp import serde

    install(serde, STUBS)
    return serde


def features_of(schema: Schema):
    top = schema.struct(schema.top)
    decl_ids = [fid for _, fid, _ in top]
    kinds = [t[0] for _, _, t in top]

    def anywhere(k):
        return has_kind(schema, ("struct", schema.top), k)

    # wire positions that are not byte aligned cannot be computed without sizes; expose simple shape facts
    return {
        "desc": schema.describe(),
        "kinds": kinds,
        "decl_in_id_order": all(
            [fid for _, fid, _ in fs] == sorted(fid for _, fid, _ in fs) for _, fs in schema.structs),
        "has_enum": anywhere(("enum",)),
        "has_float": anywhere(("f32", "f64")),
        "has_str": anywhere(("str",)),
        "has_signed": anywhere(("i",)),
        "has_dyn": anywhere(("dyn",)),
        "has_opt": anywhere(("opt",)),
        "nfields": len(top),
        "decl_ids": decl_ids,
    }


def _env(inst: Inst):
    return {"v": {p: x.e for p, x in inst.vars.items()},
            "signed": {p: w for p, (k, w) in inst.kinds.items() if k == "i"},
            "unsigned": {p: w for p, (k, w) in inst.kinds.items() if k == "u"}}


def _replay_payload(kind, schema, inst, model, **kw):
    val = concretize(inst.value, model)
    d = {"kind": kind, "schema_text": schema.text(), "schema": _schema_json(schema), "top": schema.top,
         "value": to_json(val)}
    try:
        from ..shapes import decoy_of
        d["decoy_text"] = decoy_of(schema).text()
    except Exception:
        pass
    d.update(kw)
    return d


def prime_with_decoy(serde, schema):
    """The property must hold whatever the process did before: exercise the codec on a same-named but different
    schema first (concretely).  Failures of the decoy itself are irrelevant here."""
    from ..prime import prime, decoy_text
    prime(decoy_text(schema), ("serde", "layout"))


def _schema_json(s: Schema):
    return {"structs": s.structs, "enums": s.enums, "top": s.top}


# ---------------------------------------------------------------- C01
def c01_case(args):
    schema, tier = args
    serde = _setup()
    res = new_result()
    prime_with_decoy(serde, schema)
    fcp = parse(schema.text())
    feats = features_of(schema)
    known = Known("C01")
    top = schema.top
    T = ("struct", top)
    cov = Coverage()
    nsat = 0
    for ii, inst in enumerate(instances(schema, tier)):
        eng = Engine(timeout_ms=240000 if tier == "quick" else 600000, max_paths=5000)

        def body():
            ForkingRange.work = [WORK_BUDGET]
            enc = serde.encode(fcp, top, inst.value)
            ForkingRange.work = [decode_budget(len(enc))]
            dec = serde.decode(fcp, top, enc)
            return enc, dec

        try:
            paths = []
            for pi, (kind, out, pc) in enumerate(_explore(eng, body, inst.assume, cov)):
                paths.append((kind, out, pc))
                if _red(res):
                    break  # enough counterexamples for this schema; the case is red
                ob_id = f"{feats['desc']}|inst{ii}|path{pi}|roundtrip"
                mk = lambda m: _replay_payload("serde_roundtrip", schema, inst, m)
                if kind == "exc":
                    what = f"round trip raised {type(out).__name__}: {out} on {feats['desc']}"
                    decide(eng, pc, z3.BoolVal(True), prop="C01", ob_id=ob_id, res=res, known=known, features=feats,
                           env=_env(inst), make_replay=mk, what=what)
                    continue
                enc, dec = out
                ob = refspec.eq_value(schema, T, dec, inst.value)
                what = f"decode(encode(v)) != v on {feats['desc']}"
                decide(eng, pc, z3.Not(ob), prop="C01", ob_id=ob_id, res=res, known=known, features=feats,
                       env=_env(inst), make_replay=mk, what=what)
            # reachability twin: the end of the harness must be reachable (assert False comes back violated)
            r, _ = eng.check(pc=paths[0][2]) if paths else ("unsat", None)
            res["vacuity"]["twin_reached"] = res["vacuity"].get("twin_reached", 0) + (1 if r == "sat" else 0)
            res["vacuity"]["twin_expected"] = res["vacuity"].get("twin_expected", 0) + 1
        except EngineLimit as e:
            res["inconclusive"].append(f"{feats['desc']} inst{ii}: engine limit: {e}")
        finish_engine(res, eng)
    res["functions"] = sorted(cov.seen)
    res["sample"] = {"schema": feats["desc"], "instances": ii + 1, "paths": res["paths"], "queries": res["queries"],
                     "verdicts": {"discharged": res["discharged"], "violations": len(res["violations"]),
                                  "known": len(res["known"])}}
    return res


def run_c01(tier: str) -> int:
    rep = Report("C01", tier)
    fam = codec_family(tier, seed())
    rep.bounds = _bounds(tier, len(fam))
    rep.stubs = STUBS
    rep.assumptions = STUB_NOTE + _common_assumptions()
    _refspec_gate(rep)
    for r in pmap(c01_case, [(s, tier) for s in fam]):
        rep.merge(r)
        if rep.red_enough():
            break
    _vacuity_gate(rep)
    return rep.finish()


def _bounds(tier, n):
    from ..values import LEN_PATTERNS_QUICK, LEN_PATTERNS_THOROUGH

    return {
        "schemas": n,
        "shape_family": "verif.shapes.codec_family(%r): every int width 1..64 x bit alignment 0..7 (quick: sampled "
                        "alignments), floats/enums/containers at alignments, ordered pairs (thorough: triples) of "
                        "representative kinds, nesting depth <= 2 (+ seeded random trees in thorough), "
                        "declaration order != id order" % tier,
        "length_patterns": LEN_PATTERNS_THOROUGH if tier == "thorough" else LEN_PATTERNS_QUICK,
        "values": "all in-range values (symbolic): ints over their whole range, floats as arbitrary bit patterns "
                  "(f32: no signalling NaN), string bytes 0..127",
        "int_model_bits": W,
        "max_signed_leaves_per_instance": 8,
        "outside": "shapes not generated, lengths beyond the patterns",
    }


def _common_assumptions():
    return ["z3 %s decides every query; unknown/timeout is inconclusive (exit 2)" % z3.get_version_string(),
            "schemas are produced by the real front end (fcp.parser.get_fcp_from_string) from generated text",
            "counterexamples are replayed in a fresh interpreter against the unstubbed code before being reported"]


def _refspec_gate(rep: Report):
    n, bad = refspec.selftest()
    rep.extra["refspec_vectors_replayed"] = n
    rep.extra["traces_validated_against_impl"] = n
    if bad:
        for b in bad:
            rep.inconclusive.append("refspec disagrees with a repository vector: " + b)


def _vacuity_gate(rep: Report):
    v = rep.vacuity
    if v.get("twin_expected", 0) and v.get("twin_reached", 0) != v.get("twin_expected", 0):
        rep.inconclusive.append(f"reachability twin failed: {v}")


# ---------------------------------------------------------------- C02
def _as_symbytes(bvs):
    return [SymInt._mk(z3.ZeroExt(W - 8, b), 0, 255) for b in bvs]


def _budget(fn, *a, budget=WORK_BUDGET):
    ForkingRange.work = [budget]
    return fn(*a)


def c02_case(args):
    schema, tier = args
    serde = _setup()
    res = new_result()
    prime_with_decoy(serde, schema)
    fcp = parse(schema.text())
    feats = features_of(schema)
    known = Known("C02")
    top = schema.top
    T = ("struct", top)
    cov = Coverage()
    for ii, inst in enumerate(instances(schema, tier)):
        canon = refspec.canon_bytes(schema, T, inst.value)
        # (a) encoder output == canonical bytes
        eng = Engine(timeout_ms=240000 if tier == "quick" else 600000, max_paths=5000)
        try:
            paths = []
            for pi, (kind, out, pc) in enumerate(_explore(eng, lambda: _budget(serde.encode, fcp, top, inst.value), inst.assume, cov)):
                paths.append(kind)
                if _red(res):
                    break
                ob_id = f"{feats['desc']}|inst{ii}|path{pi}|encode==canon"

                def mk(m, canon=canon):
                    exp = [m.eval(b, model_completion=True).as_long() for b in canon]
                    return _replay_payload("serde_encode", schema, inst, m, expected_bytes=exp)

                if kind == "exc":
                    decide(eng, pc, z3.BoolVal(True), prop="C02", ob_id=ob_id, res=res, known=known, features=feats,
                           env=_env(inst), make_replay=mk,
                           what=f"encode raised {type(out).__name__}: {out} on {feats['desc']}")
                    continue
                if len(out) != len(canon):
                    viol = z3.BoolVal(True)
                else:
                    eqs = [z3.Extract(7, 0, z3of(x)) == c for x, c in zip(out, canon)]
                    viol = z3.Not(z3.And(*eqs)) if eqs else z3.BoolVal(False)
                decide(eng, pc, viol, prop="C02", ob_id=ob_id, res=res, known=known, features=feats, env=_env(inst),
                       make_replay=mk, what=f"encode(v) != canonical bytes on {feats['desc']}")
            res["vacuity"]["twin_expected"] = res["vacuity"].get("twin_expected", 0) + 1
            res["vacuity"]["twin_reached"] = res["vacuity"].get("twin_reached", 0) + (1 if paths else 0)
        except EngineLimit as e:
            res["inconclusive"].append(f"{feats['desc']} inst{ii} encode: engine limit: {e}")
        finish_engine(res, eng)
        # (b) decoder recovers v from the canonical bytes
        eng = Engine(timeout_ms=240000 if tier == "quick" else 600000, max_paths=5000)
        data = _as_symbytes(canon)
        try:
            for pi, (kind, out, pc) in enumerate(_explore(eng, lambda: _budget(serde.decode, fcp, top, list(data), budget=decode_budget(len(data))), inst.assume, cov)):
                if _red(res):
                    break
                ob_id = f"{feats['desc']}|inst{ii}|path{pi}|decode(canon)==v"

                def mk(m, canon=canon):
                    cb = [m.eval(b, model_completion=True).as_long() for b in canon]
                    return _replay_payload("serde_decode", schema, inst, m, canonical_bytes=cb)

                if kind == "exc":
                    decide(eng, pc, z3.BoolVal(True), prop="C02", ob_id=ob_id, res=res, known=known, features=feats,
                           env=_env(inst), make_replay=mk,
                           what=f"decode(canonical bytes) raised {type(out).__name__}: {out} on {feats['desc']}")
                    continue
                ob = refspec.eq_value(schema, T, out, inst.value)
                decide(eng, pc, z3.Not(ob), prop="C02", ob_id=ob_id, res=res, known=known, features=feats,
                       env=_env(inst), make_replay=mk, what=f"decode(canonical bytes of v) != v on {feats['desc']}")
        except EngineLimit as e:
            res["inconclusive"].append(f"{feats['desc']} inst{ii} decode: engine limit: {e}")
        finish_engine(res, eng)
    res["functions"] = sorted(cov.seen)
    res["sample"] = {"schema": feats["desc"], "instances": ii + 1, "paths": res["paths"], "queries": res["queries"],
                     "canonical_bytes_last_instance": len(canon),
                     "verdicts": {"discharged": res["discharged"], "violations": len(res["violations"]),
                                  "known": len(res["known"])}}
    return res


def run_c02(tier: str) -> int:
    rep = Report("C02", tier)
    fam = codec_family(tier, seed())
    rep.bounds = _bounds(tier, len(fam))
    rep.stubs = STUBS
    rep.assumptions = STUB_NOTE + _common_assumptions() + [
        "oracle: verif.refspec (canonical wire format written from the property text), validated on every run "
        "against tests/standardized/fcp_tests.json and the byte vectors of tests/test_serde.py"]
    _refspec_gate(rep)
    for r in pmap(c02_case, [(s, tier) for s in fam]):
        rep.merge(r)
        if rep.red_enough():
            break
    _vacuity_gate(rep)
    return rep.finish()


# ---------------------------------------------------------------- C16
class Announce(list):
    """A list whose announced length (the wire prefix) is overridden."""
    announced = None


class AnnounceStr(SymStr):
    announced = None


def _dyn_sites(schema: Schema, t, v, path=()):
    """(path, element_type, object) of every str / dynamic array / optional inside value v, in wire order.
    Optionals are yielded with element_type None (they only act as barriers)."""
    k = t[0]
    if k == "str":
        yield path, ("u", 8), v
    elif k == "dyn":
        yield path, t[1], v
        for i, x in enumerate(v):
            yield from _dyn_sites(schema, t[1], x, path + (i,))
    elif k == "arr":
        for i, x in enumerate(v):
            yield from _dyn_sites(schema, t[1], x, path + (i,))
    elif k == "opt":
        yield path, None, v
        if v is not None:
            yield from _dyn_sites(schema, t[1], v, path)
    elif k == "struct":
        for fn, _, ft in sorted(schema.struct(t[1]), key=lambda f: f[1]):
            yield from _dyn_sites(schema, ft, v[fn], path + (fn,))


def _replace_at(schema, t, v, path, new):
    if not path:
        return new
    k = t[0]
    if k == "struct":
        fs = {fn: ft for fn, _, ft in schema.struct(t[1])}
        out = dict(v)
        out[path[0]] = _replace_at(schema, fs[path[0]], v[path[0]], path[1:], new)
        return out
    if k in ("arr", "dyn"):
        out = list(v)
        out[path[0]] = _replace_at(schema, t[1], v[path[0]], path[1:], new)
        if isinstance(v, Announce):
            raise AssertionError
        return out
    if k == "opt":
        return _replace_at(schema, t[1], v, path, new)
    raise ValueError((t, path))


def c16_case(args):
    schema, tier = args
    serde = _setup()
    res = new_result()
    prime_with_decoy(serde, schema)
    fcp = parse(schema.text())
    feats = features_of(schema)
    known = Known("C16")
    top = schema.top
    T = ("struct", top)
    cov = Coverage()
    tmo = 240000 if tier == "quick" else 300000
    nobl = {"prefix": 0, "announce": 0, "arbitrary": 0}
    t_case = time.time()
    # thorough tier: the work on one schema shares a wall budget; what is cut off is counted (never silently)
    budget = None if tier == "quick" else float(os.environ.get("VERIF_C16_SCHEMA_BUDGET_S", "90"))
    cut = [0]

    def over(k):
        return budget is not None and time.time() - t_case > k * budget

    def must_raise(eng, data, assume, ob_id, what, mk, work=None):
        """decode(data) must raise on every feasible path."""
        ForkingRange.work = [work] if work is not None else None
        try:
            with cov:
                it = eng.explore(lambda: _decode_reset(serde, fcp, top, data, work), assume)
                for pi, (kind, out, pc) in enumerate(it):
                    if res["violations"]:
                        break   # the case is red: no need to enumerate the remaining paths
                    if over(4):
                        cut[0] += 1
                        break
                    oid = f"{ob_id}|path{pi}"
                    if kind == "exc" and isinstance(out, WorkBound):
                        decide(eng, pc, z3.BoolVal(True), prop="C16", ob_id=oid, res=res, known=known,
                               features=feats, env={}, make_replay=lambda m: mk(m, True),
                               what=what + " :: work not bounded by the input length")
                    elif kind == "exc":
                        res["obligations"].append(oid)
                        res["discharged"] += 1
                    else:
                        decide(eng, pc, z3.BoolVal(True), prop="C16", ob_id=oid, res=res, known=known,
                               features=feats, env={}, make_replay=lambda m: mk(m, False), what=what)
        except EngineLimit as e:
            res["inconclusive"].append(f"{ob_id}: engine limit: {e}")
        finally:
            ForkingRange.work = None
        finish_engine(res, eng)

    # thorough tier: the instances of one schema (growing length patterns) share a wall budget; what is cut off is counted
    for ii, inst in enumerate(instances(schema, tier)):
        if _red(res) or res["violations"]:
            break
        if ii > 0 and over(1):
            cut[0] += 1
            continue
        canon = refspec.canon_bytes(schema, T, inst.value)
        data = _as_symbytes(canon)
        # history: the complete message is decoded before its prefixes (a receiver sees good frames first)
        try:
            zero = [0] * len(canon)
            serde.decode(fcp, top, [0] * (len(canon) + 4))     # benign content: no huge prefixes
        except Exception:
            pass
        # (a) every strict prefix of a valid encoding must be rejected
        for k in range(len(data)):
            if _red(res) or res["violations"]:
                break
            if ii > 0 and over(2):
                cut[0] += 1        # a single long instance: its remaining prefixes
                break
            def mk(m, wb, k=k):
                cb = [m.eval(b, model_completion=True).as_long() for b in canon][:k]
                full = [m.eval(b, model_completion=True).as_long() for b in canon]
                return _replay_payload("serde_truncated", schema, inst, m, data=cb, work_bound=wb, full=full,
                                       why=f"strict prefix ({k} of {len(canon)} bytes) of a valid encoding")
            must_raise(Engine(timeout_ms=tmo), data[:k], inst.assume, f"{feats['desc']}|inst{ii}|prefix{k}",
                       f"decode accepted a strict prefix ({k}/{len(canon)} bytes) on {feats['desc']}", mk,
                       work=64 * (len(data) + 8))
            nobl["prefix"] += 1
        # (b) a length prefix announcing more than the buffer holds (any value up to 2^32-1) must be rejected
        total_bits, _ = refspec.pack(refspec.segments(schema, T, inst.value))
        # only the LAST variable-size node in wire order: a corrupted earlier prefix makes later prefixes/flags be
        # re-read from other bytes, so "what the prefixes announce" is no longer determined by this one count
        sites = list(_dyn_sites(schema, T, inst.value))
        for si, (path, et, obj) in enumerate(sites[-1:]):
            if et is None or not is_fixed(schema, et) or res["violations"]:
                continue
            from ..shapes import fixed_bits
            ebits = fixed_bits(schema, et)
            if ebits == 0:
                continue
            L = len(obj)
            ann, c_ann = SymInt.fresh(f"announced{si}", 0, 2 ** 32 - 1)
            new = AnnounceStr(obj) if isinstance(obj, SymStr) else Announce(obj)
            new.announced = ann
            v2 = _replace_at(schema, T, inst.value, path, new)
            canon2 = refspec.canon_bytes(schema, T, v2)
            nbytes = len(canon2)
            other = total_bits - ebits * L
            # the announced value needs more bytes than exist
            need = z3.BitVecVal(other, W) + z3.BitVecVal(ebits, W) * ann.e > 8 * nbytes
            assume = inst.assume + [c_ann, ann.e > L, need]

            def mk(m, wb, canon2=canon2):
                cb = [m.eval(b, model_completion=True).as_long() for b in canon2]
                return _replay_payload("serde_truncated", schema, inst, m, data=cb, work_bound=wb,
                                       why="a length prefix announces more elements than the buffer holds")
            must_raise(Engine(timeout_ms=tmo), _as_symbytes(canon2), assume,
                       f"{feats['desc']}|inst{ii}|announce{si}",
                       f"decode accepted a buffer shorter than its length prefix announces on {feats['desc']}", mk,
                       work=64 * (nbytes + 8))
            nobl["announce"] += 1
    # (c) arbitrary buffers: whatever decode returns must fit in the bytes that were there, with bounded work
    t_arb = time.time()
    for n in ((0, 1, 2, 3, 5, 6) if tier == "quick" else (0, 1, 2, 3, 4, 5, 6, 7, 8, 9)):
        if _red(res) or res["violations"]:
            break
        if n > 3 and budget is not None and time.time() - t_arb > budget:
            cut[0] += 1            # longer arbitrary buffers of this schema
            continue
        raw = [z3.BitVec(f"b{i}", 8) for i in range(n)]
        data = _as_symbytes(raw)
        eng = Engine(timeout_ms=tmo, max_paths=3000)
        ob_base = f"{feats['desc']}|arbitrary{n}"
        ForkingRange.work = [64 * (n + 8)]
        try:
            with cov:
                for pi, (kind, out, pc) in enumerate(
                        eng.explore(lambda: _decode_reset(serde, fcp, top, data, 64 * (n + 8)), [])):
                    if res["violations"]:
                        break
                    if n > 3 and budget is not None and time.time() - t_arb > 2 * budget:
                        cut[0] += 1
                        break
                    oid = f"{ob_base}|path{pi}"

                    def mk(m, wb, raw=raw):
                        cb = [m.eval(b, model_completion=True).as_long() for b in raw]
                        return {"kind": "serde_truncated", "schema_text": schema.text(), "top": top, "data": cb,
                                "schema": _schema_json(schema), "work_bound": wb,
                                "why": "returned value needs more bytes than the input has"}
                    if kind == "exc" and isinstance(out, WorkBound):
                        decide(eng, pc, z3.BoolVal(True), prop="C16", ob_id=oid, res=res, known=known,
                               features=feats, env={}, make_replay=lambda m: mk(m, True),
                               what=f"decode work not bounded by input length ({n} bytes) on {feats['desc']}")
                    elif kind == "exc":
                        res["obligations"].append(oid)
                        res["discharged"] += 1
                    else:
                        try:
                            bits, _ = refspec.pack(refspec.segments(schema, T, out))
                        except Exception as e:
                            res["inconclusive"].append(f"{oid}: returned value not of the schema's type: {e}")
                            continue
                        if (bits + 7) // 8 > n:
                            decide(eng, pc, z3.BoolVal(True), prop="C16", ob_id=oid, res=res, known=known,
                                   features=feats, env={}, make_replay=lambda m: mk(m, False),
                                   what=f"decode fabricated a value of {bits} bits from {n} bytes on {feats['desc']}")
                        else:
                            res["obligations"].append(oid)
                            res["discharged"] += 1
                    nobl["arbitrary"] += 1
        except EngineLimit as e:
            res["inconclusive"].append(f"{ob_base}: engine limit: {e}")
        finally:
            ForkingRange.work = None
        finish_engine(res, eng)
    res["functions"] = sorted(cov.seen)
    if cut[0]:
        res["vacuity"]["C16 explorations cut off by the per-schema wall budget (thorough)"] = cut[0]
    res["sample"] = {"schema": feats["desc"], "obligation_groups": nobl, "paths": res["paths"], "wall_s": round(time.time() - t_case, 2),
                     "queries": res["queries"],
                     "verdicts": {"discharged": res["discharged"], "violations": len(res["violations"])}}
    return res


def _decode_reset(serde, fcp, top, data, work):
    if work is not None:
        ForkingRange.work = [work]
    return serde.decode(fcp, top, list(data))


def c16_family(tier, sd):
    fam = codec_family(tier, sd)
    # every shape with a variable-size part and a sample of the fixed-size ones (1 in 7 quick, 1 in 3 thorough)
    step = 7 if tier == "quick" else 3
    keep = []
    for i, s in enumerate(fam):
        if has_kind(s, ("struct", s.top), ("str", "dyn", "opt")) or i % step == 0:
            keep.append(s)
    return keep


def run_c16(tier: str) -> int:
    rep = Report("C16", tier)
    fam = c16_family(tier, seed())
    rep.bounds = _bounds(tier, len(fam))
    rep.bounds.update({
        "truncation": "every byte boundary k < len(encoding) of every instance (values symbolic)",
        "length_prefix": "every str / dynamic array of fixed-size elements: announced count symbolic in (L, 2^32) "
                         "subject to 'announced value needs more bytes than the buffer has'",
        "thorough_wall_budget": "thorough tier only: the work on one schema shares a wall budget (90 s: further instances are "
                                "skipped; at twice that an instance stops taking prefixes, at four times a single exploration is "
                                "abandoned; arbitrary buffers above 3 bytes have their own 90 s); the number of cut-offs is reported "
                                "under vacuity_guards; arbitrary buffers up to 3 bytes are never cut",
        "arbitrary_buffers": "n symbolic bytes, n in {0,1,2,3,5,6} (quick) / {0..9} (thorough); "
                             "work budget 64*(n+8) loop iterations",
    })
    rep.stubs = STUBS
    rep.assumptions = STUB_NOTE + _common_assumptions() + [
        "any Exception raised by decode counts as 'raises a decoding error'",
        "non-canonical but complete inputs (presence flag not in {0,1}, non-zero padding) are not required to be "
        "rejected: the property does not ask for it"]
    _refspec_gate(rep)
    for r in pmap(c16_case, [(s, tier) for s in fam]):
        rep.merge(r)
        if rep.red_enough():
            break
    return rep.finish()
