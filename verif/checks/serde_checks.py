"""C01 / C02 / C16: the real fcp.serde.encode/decode under pysym."""
from __future__ import annotations

import os

import z3

from .. import refspec
from ..common import Known, Report, pmap, seed, add_repo_paths
from ..decide import decide, new_result, finish_engine
from ..fromfcp import parse
from ..pysym import (Engine, EngineLimit, SymInt, SymStr, SymByteArray, Coverage, ForkingRange, WorkBound, install,
                     concretize, W, z3of)
from ..shapes import Schema, codec_family, has_kind, is_fixed
from ..values import Inst, instances, to_json

STUBS = ["int", "float", "bytearray", "ord", "chr", "struct", "range", "max", "sorted"]
STUB_NOTE = [
    "builtins rebound in fcp.serde's namespace at harness time (no repository file edited): " + ", ".join(STUBS),
    "struct.pack/unpack('f'|'d'): native little-endian IEEE-754 image (x86-64 host); f32 values are not signalling NaNs",
    "bytearray(seq): same ints, each must be 0..255 else ValueError (the range test is a symbolic branch)",
    "sorted(): insertion sort through proxy comparisons (forks over feasible orders, stable)",
    "range(n): forks on i < n when n is symbolic",
]


def _setup():
    add_repo_paths()
    from fcp import serde

    install(serde, STUBS)
    return serde


def features_of(schema: Schema):
    top = schema.struct(schema.top)
    decl_ids = [fid for _, fid, _ in top]
    kinds = [t[0] for _, _, t in top]

    def anywhere(k):
        return has_kind(schema, ("struct", schema.top), k)

    # wire positions that are not byte aligned cannot be computed without sizes; expose simple shape facts
    return {
        "desc": schema.describe(),
        "kinds": kinds,
        "decl_in_id_order": all(
            [fid for _, fid, _ in fs] == sorted(fid for _, fid, _ in fs) for _, fs in schema.structs),
        "has_enum": anywhere(("enum",)),
        "has_float": anywhere(("f32", "f64")),
        "has_str": anywhere(("str",)),
        "has_signed": anywhere(("i",)),
        "has_dyn": anywhere(("dyn",)),
        "has_opt": anywhere(("opt",)),
        "nfields": len(top),
        "decl_ids": decl_ids,
    }


def _env(inst: Inst):
    return {"v": {p: x.e for p, x in inst.vars.items()}, "types": {}}


def _replay_payload(kind, schema, inst, model, **kw):
    val = concretize(inst.value, model)
    d = {"kind": kind, "schema_text": schema.text(), "schema": _schema_json(schema), "top": schema.top,
         "value": to_json(val)}
    d.update(kw)
    return d


def _schema_json(s: Schema):
    return {"structs": s.structs, "enums": s.enums, "top": s.top}


# ---------------------------------------------------------------- C01
def c01_case(args):
    schema, tier = args
    serde = _setup()
    res = new_result()
    fcp = parse(schema.text())
    feats = features_of(schema)
    known = Known("C01")
    top = schema.top
    T = ("struct", top)
    cov = Coverage()
    nsat = 0
    for ii, inst in enumerate(instances(schema, tier)):
        eng = Engine(timeout_ms=30000 if tier == "quick" else 300000)

        def body():
            enc = serde.encode(fcp, top, inst.value)
            dec = serde.decode(fcp, top, enc)
            return enc, dec

        try:
            with cov:
                paths = list(eng.explore(body, inst.assume))
            for pi, (kind, out, pc) in enumerate(paths):
                ob_id = f"{feats['desc']}|inst{ii}|path{pi}|roundtrip"
                mk = lambda m: _replay_payload("serde_roundtrip", schema, inst, m)
                if kind == "exc":
                    what = f"round trip raised {type(out).__name__}: {out} on {feats['desc']}"
                    decide(eng, pc, z3.BoolVal(True), prop="C01", ob_id=ob_id, res=res, known=known, features=feats,
                           env=_env(inst), make_replay=mk, what=what)
                    continue
                enc, dec = out
                ob = refspec.eq_value(schema, T, dec, inst.value)
                what = f"decode(encode(v)) != v on {feats['desc']}"
                decide(eng, pc, z3.Not(ob), prop="C01", ob_id=ob_id, res=res, known=known, features=feats,
                       env=_env(inst), make_replay=mk, what=what)
            # reachability twin: the end of the harness must be reachable (assert False comes back violated)
            r, _ = eng.check(pc=paths[0][2]) if paths else ("unsat", None)
            res["vacuity"]["twin_reached"] = res["vacuity"].get("twin_reached", 0) + (1 if r == "sat" else 0)
            res["vacuity"]["twin_expected"] = res["vacuity"].get("twin_expected", 0) + 1
        except EngineLimit as e:
            res["inconclusive"].append(f"{feats['desc']} inst{ii}: engine limit: {e}")
        finish_engine(res, eng)
    res["functions"] = sorted(cov.seen)
    res["sample"] = {"schema": feats["desc"], "instances": ii + 1, "paths": res["paths"], "queries": res["queries"],
                     "verdicts": {"discharged": res["discharged"], "violations": len(res["violations"]),
                                  "known": len(res["known"])}}
    return res


def run_c01(tier: str) -> int:
    rep = Report("C01", tier)
    fam = codec_family(tier, seed())
    rep.bounds = _bounds(tier, len(fam))
    rep.stubs = STUBS
    rep.assumptions = STUB_NOTE + _common_assumptions()
    _refspec_gate(rep)
    for r in pmap(c01_case, [(s, tier) for s in fam]):
        rep.merge(r)
    _vacuity_gate(rep)
    return rep.finish()


def _bounds(tier, n):
    from ..values import LEN_PATTERNS_QUICK, LEN_PATTERNS_THOROUGH

    return {
        "schemas": n,
        "shape_family": "verif.shapes.codec_family(%r): every int width 1..64 x bit alignment 0..7 (quick: sampled "
                        "alignments), floats/enums/containers at alignments, ordered pairs (thorough: triples) of "
                        "representative kinds, nesting depth <= 2 (+ seeded random trees in thorough), "
                        "declaration order != id order" % tier,
        "length_patterns": LEN_PATTERNS_THOROUGH if tier == "thorough" else LEN_PATTERNS_QUICK,
        "values": "all in-range values (symbolic): ints over their whole range, floats as arbitrary bit patterns "
                  "(f32: no signalling NaN), string bytes 0..127",
        "int_model_bits": W,
        "outside": "shapes not generated, lengths beyond the patterns",
    }


def _common_assumptions():
    return ["z3 %s decides every query; unknown/timeout is inconclusive (exit 2)" % z3.get_version_string(),
            "schemas are produced by the real front end (fcp.parser.get_fcp_from_string) from generated text",
            "counterexamples are replayed in a fresh interpreter against the unstubbed code before being reported"]


def _refspec_gate(rep: Report):
    n, bad = refspec.selftest()
    rep.extra["refspec_vectors_replayed"] = n
    rep.extra["traces_validated_against_impl"] = n
    if bad:
        for b in bad:
            rep.inconclusive.append("refspec disagrees with a repository vector: " + b)


def _vacuity_gate(rep: Report):
    v = rep.vacuity
    if v.get("twin_expected", 0) and v.get("twin_reached", 0) != v.get("twin_expected", 0):
        rep.inconclusive.append(f"reachability twin failed: {v}")
