"""C18: generated C++ CAN frame wrapper (can_static_schema.h + can.h + fcp.h) through llsym on clang-14 -O1 IR.

The real CanStaticSchema::Encode / Decode, StaticSchema::EncodeJson / DecodeJson (name dispatch), <S>::Encode / <S>::Decode,
Buffer and the std::string / std::optional / std::vector code they inline are interpreted.  Only the two JSON <-> typed value
conversions are environment models: <S>::FromJson(json) returns the typed value built from a flat symbolic argument area,
<S>::DecodeJson() dumps the typed value it is called on and returns a null json.  JSON itself is never executed."""
from __future__ import annotations

import dataclasses
import json
import os
import random

import z3

from .. import refspec, llsym, cxx
from ..common import Known, Report, pmap, seed, add_repo_paths, write_replay, run_replay
from ..decide import decide, new_result, finish_engine
from ..native import Scratch
from ..pysym import Engine, EngineLimit, concretize
from ..shapes import Schema, mk_enum
from ..values import Inst, to_json
from .cxx_checks import install_natives, CxxThrow

I64 = llsym.T("int", n=64)

# ------------------------------------------------------------------------------------------------ family
E5 = mk_enum("E5", 5)
POOL = {
    "A": [("s1", 0, ("u", 8)), ("s2", 1, ("u", 8))],
    "B": [("a", 0, ("u", 12))],
    "C": [("x", 0, ("i", 13)), ("y", 1, ("u", 3)), ("z", 2, ("enum", "E5"))],
    "D": [("v", 0, ("arr", ("u", 6), 3)), ("w", 1, ("i", 9))],
    "F": [("q", 0, ("u", 64))],
    "G": [("n", 0, ("struct", "In")), ("o", 1, ("u", 1))],
    "H": [("h", 0, ("u", 1))],
    "K": [("k1", 1, ("u", 5)), ("k0", 0, ("i", 16))],          # ids not in declaration order
    "Msg2": [("m", 0, ("u", 16))],                             # names longer than their bus tag / than a bus tag can be
    "EngineStatus": [("rpm", 0, ("u", 16)), ("t", 1, ("i", 8))],
}
IN = ("In", [("p", 0, ("u", 5)), ("q", 1, ("i", 11))])


def mk(bindings, extra_impls=()):
    """bindings: [(struct, id, bus|None)] -> Schema whose CAN bindings are named after their struct."""
    names = []
    for b in list(bindings) + [(x[1], None, None) for x in extra_impls]:
        if b[0] not in names:
            names.append(b[0])
    bindings = [tuple(b) + (None,) * (4 - len(b)) for b in bindings]
    structs = ([IN] if "G" in names else []) + [(n, POOL[n]) for n in names]
    enums = {"E5": E5} if "C" in names else {}
    impls = []
    for sn, sid, bus, alias in bindings:
        kv = {"id": sid}
        if bus is not None:
            kv["bus"] = bus
        impls.append(("can", sn, alias, kv, []))
    impls += list(extra_impls)
    return Schema(structs=structs, enums=enums, impls=impls, top=names[0])


def c18_family(tier, sd=0):
    fam = [
        mk([("A", 10, "bus1")]),
        mk([("A", 0, "a"), ("B", 2047, "ab"), ("C", 1024, "abc")]),
        mk([("A", 5, "x"), ("B", 5, "xy"), ("H", 5, "xyzw")]),                    # same id, buses that prefix one another
        mk([("A", 1, "can0"), ("B", 2, "can0"), ("F", 256, "can0")]),             # same bus; 256 vs 0 in the low byte
        mk([("K", 7, "b1"), ("D", 8, None)], [("other", "G", None, {"id": 9, "bus": "b1"}, [])]),   # bus-less and non-CAN bindings
        mk([("G", 2047, "zzzz"), ("F", 2046, "zzz")]),
        mk([("D", 300, "CAN1"), ("C", 3, "_"), ("H", 30, "CAN1")]),
        mk([("Msg2", 77, "c"), ("EngineStatus", 78, "pt"), ("B", 79, "Msg2")]),
        mk([("A", 17, "can1"), ("B", 17, "CAN1"), ("H", 18, "Can1")]),          # bus names that differ only in letter case
        # renamed bindings ('impl can for A as Alias'): the message name is the binding's, the payload type the struct's
        mk([("A", 40, "b1", "Alias"), ("A", 41, "b1"), ("B", 42, "b2", "Bee"), ("K", 43, "b2", "Kay")]),
    ]
    if tier == "thorough":
        rng = random.Random(sd)
        alpha = "abAZ09_"
        for _ in range(48):
            k = rng.randint(1, 4)
            names = rng.sample(sorted(POOL), k)
            used = set()
            bs = []
            for sn in names:
                for _try in range(20):
                    sid = rng.choice([0, 1, 2, 255, 256, 257, 1023, 1024, 2046, 2047, rng.randint(0, 2047)])
                    if bs and rng.random() < 0.4:
                        base = rng.choice(bs)[2]
                        bus = (base + rng.choice(alpha))[:4] if rng.random() < 0.5 else base[:max(1, len(base) - 1)]
                        if rng.random() < 0.5:
                            sid = rng.choice(bs)[1]
                    else:
                        bus = "".join(rng.choice(alpha) for _ in range(rng.randint(1, 4)))
                    if (sid, bus) not in used and not bus[0].isdigit():
                        break
                else:
                    continue
                used.add((sid, bus))
                bs.append((sn, sid, bus))
            fam.append(mk(bs))
    seen, out = set(), []
    for s in fam:
        if s.text() not in seen:
            seen.add(s.text())
            out.append(s)
    return out


def bindings_of(schema: Schema):
    """[(binding name, id, bus|None)] of the CAN bindings, in declaration order (the name is the 'as' alias if there is one)."""
    return [(name or st, kv["id"], kv.get("bus")) for proto, st, name, kv, sigs in schema.impls if proto == "can"]


def binding_types(schema: Schema):
    """binding name -> struct it binds."""
    return {(name or st): st for proto, st, name, kv, sigs in schema.impls if proto == "can"}


def tag_of(bus: str):
    b = bus.encode()
    return list(b) + [0] * (4 - len(b))


def _const_byte(eng, pc, x):
    """A byte that the optimiser folded into a wider store together with symbolic data can come back as a term: it is a
    constant if the path condition admits exactly one value for it (decided by the solver, not by the simplifier)."""
    if isinstance(x, int):
        return x
    x = z3.simplify(x)
    if z3.is_bv_value(x):
        return x.as_long()
    r, mdl = eng.check(pc=list(pc))
    if r != "sat":
        return x
    c = mdl.eval(x, model_completion=True)
    r2, _ = eng.check(x != c, pc=list(pc))
    return c.as_long() if r2 == "unsat" else x


# ------------------------------------------------------------------------------------------------ machine setup
def _find(mod, frag):
    r = [f for f in mod.funcs if frag in f]
    if len(r) != 1:
        raise EngineLimit(f"expected exactly one function matching {frag!r} in the harness IR, found {len(r)}")
    return r[0]


def install_json_models(m, mod, structs, areas, captured):
    """<S>::FromJson(json) := the typed value the harness builds from areas[S]; <S>::DecodeJson() := dump + null json."""
    for sn in structs:
        fj = _find(mod, f"_ZN3fcp{len(sn)}{sn}8FromJsonE")
        dj = _find(mod, f"_ZNK3fcp{len(sn)}{sn}10DecodeJsonB5cxx11Ev")

        def from_json(mach, *a, sn=sn, fj=fj):
            captured.append(("FromJson", sn))
            if sn not in areas:
                raise EngineLimit(f"{sn}::FromJson reached without a value prepared for it")
            if len(a) == 2:      # returned through an sret pointer
                llsym.run(mach, "@mk_" + sn, [areas[sn], a[0]])
                return None
            tmp = mach.alloc(64)
            llsym.run(mach, "@mk_" + sn, [areas[sn], tmp])
            return mach.load(tmp, mod.funcs[fj].ret)

        def decode_json(mach, sret, this, sn=sn):
            area = mach.alloc(512)
            n = llsym.run(mach, "@dump_" + sn, [this, area])
            if not isinstance(n, int):
                raise EngineLimit("dump size is symbolic")
            captured.append(("DecodeJson", sn, [mach.readbyte(area + i) for i in range(n)]))
            for i in range(16):
                mach.mem[sret + i] = 0          # nlohmann::json{} : m_type = null, m_value = 0
            return None

        m.overrides[fj] = from_json
        m.overrides[dj] = decode_json


def _put(m, addr, bs):
    for i, b in enumerate(bs):
        if not isinstance(b, int):
            sb = z3.simplify(b)
            b = sb.as_long() if z3.is_bv_value(sb) else sb
        m.mem[addr + i] = b


def _is_undef(x):
    return (not isinstance(x, int)) and "undef" in str(x)


# ------------------------------------------------------------------------------------------------ one schema
def c18_case(args):
    schema, tier = args
    add_repo_paths()
    res = new_result()
    known = Known("C18")
    binds = bindings_of(schema)
    desc = "; ".join(f"{n}(id={i}, bus={b!r})" for n, i, b in binds)
    structs = [n for n, _ in schema.structs if n in POOL]
    feats = {"desc": desc, "bindings": len(binds), "bus_lengths": sorted({len(b) for _, _, b in binds if b is not None}),
             "obligation": "static-wrapper", "all_widths_byte_multiples": True}     # keys the open findings' `where` may name
    base = {"schema_text": schema.text(), "property": "C18"}
    with Scratch() as d:
        ob = f"{desc}|compiles"
        res["obligations"].append(ob)
        dtext = ""
        try:
            from ..prime import prime, decoy_text
            dtext = decoy_text(schema)
            prime(dtext, ("cpp",))
            cxx.generate_cpp(schema.text(), d)
            open(os.path.join(d, "harness.cpp"), "w").write(cxx.can_harness_source(schema, structs))
            ok, ll = cxx.compile_to_ir(d)
        except Exception as e:
            ok, ll = False, f"{type(e).__name__}: {e}"
        base["decoy_text"] = dtext
        if not ok:
            path = write_replay("C18", dict(base, kind="can_compile"))
            okr, text = run_replay(path)
            if okr:
                res["violations"].append({"replay": path, "ob": ob, "what": f"generated CAN wrapper does not compile for {desc}: {str(ll)[-300:]}"})
            else:
                res["inconclusive"].append(f"{ob}: harness TU did not compile but the replay TU does: {str(ll)[-300:]}")
            return res
        res["discharged"] += 1
        mod = llsym.Mod()
        llsym.parse_module(open(ll).read(), mod)
        steps = 0
        tmo = 240000 if tier == "quick" else 600000
        reached = set()

        type_of = binding_types(schema)
        for sn, sid, bus in binds:
            if bus is None:
                continue        # the property speaks about bindings that declare a bus
            st = type_of[sn]    # sn is the binding's name (what Encode is called with / Decode answers), st its struct
            sch1 = dataclasses.replace(schema, top=st)
            T = ("struct", st)
            inst = Inst(sch1, [0], tag=f"{sn}.")
            canon = refspec.canon_bytes(sch1, T, inst.value)
            tag = tag_of(bus)
            env = {"v": {p: x.e for p, x in inst.vars.items()}}

            # ---------------- Encode(name, value): frame = (bus tag, id, dlc, data)
            m = llsym.Machine(mod)
            install_natives(m)
            area = []
            cxx.marshal(sch1, T, inst.value, area)
            argp = m.alloc(len(area) + 16)
            _put(m, argp, area)
            namep = m.alloc(len(sn) + 1)
            _put(m, namep, list(sn.encode()) + [0])
            outp = m.alloc(32)
            _put(m, outp, [0x55] * 32)
            cap = []
            install_json_models(m, mod, structs, {st: argp}, cap)
            snap, brk = dict(m.mem), m.brk
            eng = Engine(timeout_ms=tmo, max_paths=200)

            def enc_body():
                m.mem = dict(snap)
                m.brk = brk
                del cap[:]
                r = llsym.run(m, "@can_enc", [namep, outp])
                if not isinstance(r, int):
                    raise EngineLimit("can_enc result is symbolic")
                return r, [m.mem[outp + i] for i in range(cxx.FRAME_BYTES)], list(cap)

            def mk_enc(mdl, sn=sn, sid=sid, tag=tag, canon=canon, inst=inst):
                val = concretize(inst.value, mdl)
                return dict(base, kind="can_encode", name=sn, value=to_json(val), expected={
                    "bus": tag, "sid": sid, "data": [mdl.eval(b, model_completion=True).as_long() for b in canon]})

            try:
                for pi, (kind, out, pc) in enumerate(eng.explore(enc_body, inst.assume)):
                    ob = f"{desc}|{sn}|encode|path{pi}"
                    if kind == "exc":
                        if isinstance(out, CxxThrow):
                            decide(eng, pc, z3.BoolVal(True), prop="C18", ob_id=ob, res=res, known=known, features=feats,
                                   env=env, make_replay=mk_enc, what=f"Can::Encode({sn!r}, v) threw {out}")
                        else:
                            res["inconclusive"].append(f"{ob}: interpreter stopped: {type(out).__name__}: {str(out)[:200]}")
                        continue
                    r, fb, cp = out
                    reached.add((sn, "encode"))
                    if r != 1:
                        viol, why = z3.BoolVal(True), "returned no frame"
                    else:
                        want = tag + [sid & 0xFF, sid >> 8, len(canon)] + list(canon)
                        got = fb[:7 + len(canon)]
                        terms = []
                        for g, w in zip(got, want):
                            if _is_undef(g):
                                terms.append(z3.BoolVal(False))      # an indeterminate byte is not "the binding's bus"
                            else:
                                terms.append(llsym.bv(g, 8) == llsym.bv(w, 8))
                        viol = z3.Not(z3.And(*terms))
                        why = ("frame (bus, id, dlc, data) differs from (binding's bus, binding's id, canonical size, canonical bytes)"
                               + ("; a bus byte is read from uninitialised memory" if any(_is_undef(g) for g in got[:4]) else ""))
                    decide(eng, pc, viol, prop="C18", ob_id=ob, res=res, known=known, features=feats, env=env,
                           make_replay=mk_enc, what=f"Can::Encode({sn!r}, v) on [{desc}]: {why}")
            except EngineLimit as e:
                res["inconclusive"].append(f"{desc}|{sn}|encode: engine limit: {e}")
            finish_engine(res, eng)
            steps += m.steps

            # ---------------- Decode(frame produced by Encode) = (name, value)
            m = llsym.Machine(mod)
            install_natives(m)
            frame = tag + [sid & 0xFF, sid >> 8, len(canon)] + list(canon) + [0] * (8 - len(canon))
            inp = m.alloc(16)
            _put(m, inp, frame)
            # an earlier frame on the same Can object: this binding's id on a bus that no binding uses (matches nothing)
            foreign = [0x7E, 0x7E, 0x7E, 0x7E, sid & 0xFF, sid >> 8, 0] + [0] * 8
            firstp = m.alloc(16)
            _put(m, firstp, foreign)
            nameo = m.alloc(64)
            _put(m, nameo, [0] * 64)
            cap = []
            install_json_models(m, mod, structs, {}, cap)
            snap, brk = dict(m.mem), m.brk
            eng = Engine(timeout_ms=tmo, max_paths=200)

            def dec_body():
                m.mem = dict(snap)
                m.brk = brk
                del cap[:]
                r = llsym.run(m, "@can_dec2", [firstp, inp, nameo])
                del cap[:-1]      # keep what the second Decode converted
                cap[:] = [c for c in cap if c[0] == "DecodeJson"][-1:]
                if not isinstance(r, int):
                    raise EngineLimit("can_dec result is symbolic")
                r = llsym.sext(r, 64)
                return r, bytes(m.mem[nameo + i] for i in range(max(r, 0))).decode("latin-1"), list(cap)

            def mk_dec(mdl, sn=sn, frame=frame, inst=inst):
                val = concretize(inst.value, mdl)
                return dict(base, kind="can_decode", frame=[b if isinstance(b, int) else mdl.eval(b, model_completion=True).as_long() for b in frame],
                            first_frame=foreign, expected={"name": sn, "value": to_json(val)})

            try:
                for pi, (kind, out, pc) in enumerate(eng.explore(dec_body, inst.assume)):
                    ob = f"{desc}|{sn}|decode|path{pi}"
                    if kind == "exc":
                        if isinstance(out, CxxThrow):
                            decide(eng, pc, z3.BoolVal(True), prop="C18", ob_id=ob, res=res, known=known, features=feats,
                                   env=env, make_replay=mk_dec, what=f"Can::Decode of the frame encoded for {sn} threw {out}")
                        else:
                            res["inconclusive"].append(f"{ob}: interpreter stopped: {type(out).__name__}: {str(out)[:200]}")
                        continue
                    r, name, cp = out
                    reached.add((sn, "decode"))
                    dumps = [c for c in cp if c[0] == "DecodeJson"]
                    if r < 0:
                        viol, why = z3.BoolVal(True), "reported as unknown"
                    elif name != sn:
                        viol, why = z3.BoolVal(True), f"decoded as {name!r}"
                    elif len(dumps) != 1 or dumps[0][1] != st:
                        viol, why = z3.BoolVal(True), f"value converted from {[c[1] for c in dumps]}"
                    else:
                        exp = []
                        cxx.marshal(sch1, T, inst.value, exp, enum_bits=64)
                        got = dumps[0][2]
                        if len(got) != len(exp):
                            viol = z3.BoolVal(True)
                        else:
                            viol = z3.Not(z3.And(*[llsym.bv(a, 8) == llsym.bv(b, 8) for a, b in zip(got, exp)]))
                        why = "decoded value differs from the encoded one"
                    decide(eng, pc, viol, prop="C18", ob_id=ob, res=res, known=known, features=feats, env=env,
                           make_replay=mk_dec, what=f"Can::Decode(frame encoded for {sn}) on [{desc}]: {why}")
            except EngineLimit as e:
                res["inconclusive"].append(f"{desc}|{sn}|decode: engine limit: {e}")
            finish_engine(res, eng)
            steps += m.steps

        # ---------------- Decode(arbitrary frame): (id, bus) matching no binding => unknown
        m = llsym.Machine(mod)
        install_natives(m)
        fr = [z3.BitVec(f"bus{i}", 8) for i in range(4)] + [z3.BitVec("sid_lo", 8), z3.BitVec("sid_hi", 8), z3.BitVec("dlc", 8)] + \
             [z3.BitVec(f"data{i}", 8) for i in range(8)]
        sidv = z3.Concat(fr[5], fr[4])
        inp = m.alloc(16)
        _put(m, inp, fr)
        nameo = m.alloc(64)
        _put(m, nameo, [0] * 64)
        cap = []
        install_json_models(m, mod, structs, {}, cap)
        snap, brk = dict(m.mem), m.brk
        eng = Engine(timeout_ms=tmo, max_paths=400)

        def matches(sid, bus):
            t = tag_of(bus)
            return z3.And(sidv == sid, *[fr[i] == t[i] for i in range(4)])

        def reads_as(sid, bus):
            """the tag read as a NUL-terminated name: bytes after the first NUL are not looked at"""
            t = list(bus.encode())
            return z3.And(sidv == sid, *([fr[i] == t[i] for i in range(len(t))] + ([fr[len(t)] == 0] if len(t) < 4 else [])))

        # whether bytes after a NUL belong to the tag is not specified: a frame is judged "matches no binding" only when
        # it matches under neither reading (exact 4 bytes NUL-padded / NUL-terminated)
        nomatch = z3.And(*[z3.And(z3.Not(matches(sid, bus)), z3.Not(reads_as(sid, bus))) for _, sid, bus in binds if bus is not None])
        # how a binding without a bus is addressed is outside the property: frames carrying such an id are not judged
        unjudged = z3.Or(*([sidv == sid for _, sid, bus in binds if bus is None] or [z3.BoolVal(False)]))

        def any_body():
            m.mem = dict(snap)
            m.brk = brk
            del cap[:]
            r = llsym.run(m, "@can_dec", [inp, nameo])
            if not isinstance(r, int):
                raise EngineLimit("can_dec result is symbolic")
            r = llsym.sext(r, 64)
            return r, bytes(m.mem[nameo + i] for i in range(max(r, 0))).decode("latin-1")

        def mk_any(mdl):
            return dict(base, kind="can_decode", frame=[mdl.eval(b, model_completion=True).as_long() for b in fr],
                        expected={"name": None})

        try:
            for pi, (kind, out, pc) in enumerate(eng.explore(any_body, [])):
                ob = f"{desc}|any-frame|path{pi}"
                if kind == "exc":
                    if isinstance(out, CxxThrow):
                        decide(eng, pc, z3.And(nomatch, z3.Not(unjudged)), prop="C18", ob_id=ob, res=res, known=known,
                               features=feats, env={}, make_replay=mk_any, what=f"Can::Decode of a frame matching no binding threw {out}")
                    else:
                        res["inconclusive"].append(f"{ob}: interpreter stopped: {type(out).__name__}: {str(out)[:200]}")
                    continue
                r, name = out
                if r < 0:
                    reached.add(("any", "unknown"))
                    res["obligations"].append(ob)
                    res["discharged"] += 1          # "unknown" is never wrong for the clause judged here
                    continue
                reached.add(("any", "known"))
                decide(eng, pc, z3.And(nomatch, z3.Not(unjudged)), prop="C18", ob_id=ob, res=res, known=known, features=feats,
                       env={}, make_replay=mk_any,
                       what=f"Can::Decode on [{desc}]: a frame whose (id, bus) matches no binding is decoded as {name!r}")
        except EngineLimit as e:
            res["inconclusive"].append(f"{desc}|any-frame: engine limit: {e}")
        finish_engine(res, eng)
        steps += m.steps
        # vacuity: every judged entry point was actually executed to its end on some path
        want = {(sn, k) for sn, _, bus in binds if bus is not None for k in ("encode", "decode")} | {("any", "unknown")}
        res["vacuity"]["entry points reached to their end"] = len(want & reached)
        res["vacuity"]["entry points never reached"] = len(want - reached)
        if want - reached and not res["violations"]:
            res["inconclusive"].append(f"{desc}: never reached the end of {sorted(want - reached)}")
        res["functions"] = ["can.h:fcp::can::Can::Encode/Decode", "generated:can_static_schema.h:CanStaticSchema::Encode/Decode/GetMsgName/GetSid/GetBus",
                            "generated:fcp.h:StaticSchema::EncodeJson/DecodeJson", "generated:fcp.h:<S>::Encode/<S>::Decode",
                            "buffer.h:Buffer::*", "decoders.h:*", "i_can_schema.h:frame_t"]
        res["sample"] = {"schema": desc, "ir_steps": steps, "paths": res["paths"], "queries": res["queries"]}
    return res


# ------------------------------------------------------------------------------------------------ static vs reflection-loaded
def c18_dyn_case(args):
    """'The statically generated and the reflection-loaded CAN schemas give the same answers': both wrappers through fcp::can::Can
    with real JSON values (nothing modelled; native models only for out-of-line libstdc++/libc, verif/cxxnatives.py)."""
    schema, tier = args
    add_repo_paths()
    from .. import cxxnatives
    from .dyn_checks import field_aligned_bytes, leaf_bits

    res = new_result()
    known = Known("C18")
    binds = bindings_of(schema)
    desc = "; ".join(f"{n}(id={i}, bus={b!r})" for n, i, b in binds)
    type_of = binding_types(schema)
    # (binding name, struct) of the bindings that declare a bus; a struct bound several times appears once per binding
    structs = [(bn, type_of[bn]) for bn, _, bus in binds if bus is not None and type_of[bn] in POOL]
    seen_ = set()
    structs = [x for x in structs if not (x[0] in seen_ or seen_.add(x[0]))]
    base = {"schema_text": schema.text(), "property": "C18", "structs": structs,
            "schema": {"structs": schema.structs, "enums": schema.enums, "top": schema.top}}
    with Scratch() as d:
        ob = f"{desc}|dynamic|compiles+loads"
        res["obligations"].append(ob)
        dtext = ""
        try:
            from ..prime import prime, decoy_text
            dtext = decoy_text(schema)
            prime(dtext, ("cpp",))
            fcp = cxx.generate_cpp(schema.text(), d)
            binv = cxx.reflection_binary(fcp)
            open(os.path.join(d, "harness.cpp"), "w").write(cxx.can_dyn_harness_source(schema, structs))
            ok, ll = cxx.compile_to_ir(d)
        except Exception as e:
            ok, ll, binv = False, f"{type(e).__name__}: {e}", b""
        base["decoy_text"] = dtext
        if not ok:
            res["inconclusive"].append(f"{ob}: harness TU did not compile: {str(ll)[-300:]}")
            return res
        mod = llsym.Mod()
        llsym.parse_module(open(ll).read(), mod)
        m = llsym.Machine(mod)
        install_natives(m)
        cxxnatives.install(m)
        m.step_budget = 8_000_000      # ~100x the largest legitimate run: a loop that does not end is an EngineLimit
        binp = m.alloc(len(binv) + 1)
        _put(m, binp, list(binv))
        try:
            sp = llsym.run(m, "@dyn_load", [binp, len(binv)])
        except (CxxThrow, EngineLimit) as e:
            res["inconclusive"].append(f"{ob}: loading the reflection stopped: {type(e).__name__}: {e}")
            return res
        res["discharged"] += 1
        snap0, brk0 = dict(m.mem), m.brk
        tmo = 240000 if tier == "quick" else 600000
        reached = set()

        def enc_side(spv, which, argp, outp):
            try:
                r = llsym.run(m, "@xcan_enc", [spv, which, argp, outp])
            except CxxThrow as e:
                return ("throw", str(e)[:60]), None
            if not isinstance(r, int):
                raise EngineLimit("xcan_enc result is symbolic")
            return ("ret", r), ([m.mem[outp + i] for i in range(cxx.FRAME_BYTES)] if r == 1 else None)

        def dec_side(spv, inp, nameo, areap, anp):
            try:
                r = llsym.run(m, "@xcan_dec", [spv, inp, nameo, areap, anp])
            except CxxThrow as e:
                return ("throw", str(e)[:60]), None, None
            if not isinstance(r, int):
                raise EngineLimit("xcan_dec result is symbolic")
            r = llsym.sext(r, 64)
            if r < 0:
                return ("ret", -1), None, None
            name = bytes(m.mem[nameo + i] for i in range(r)).decode("latin-1")
            an = m.load(anp, I64)
            if not isinstance(an, int):
                raise EngineLimit("dump size is symbolic")
            return ("ret", r), name, [m.mem[areap + i] for i in range(an)]

        for which, (sn, st) in enumerate(structs):
            b = [x for x in binds if x[0] == sn and x[2] is not None]
            if not b:
                continue
            _, sid, bus = b[0]
            sch1 = dataclasses.replace(schema, top=st)
            T = ("struct", st)
            inst = Inst(sch1, [0], tag=f"{sn}.")
            enum_ok = [z3.Or(*[inst.vars[p_].e == v for _, v in schema.enums[en]]) for p_, (k_, en) in inst.kinds.items() if k_ == "enum"]
            assume = inst.assume + enum_ok
            canon = refspec.canon_bytes(sch1, T, inst.value)
            aligned = field_aligned_bytes(sch1, T, inst.value)
            feats = {"desc": desc, "struct": sn, "all_widths_byte_multiples": all(w % 8 == 0 for w in leaf_bits(sch1, T, []))}
            env = {"v": {p: x.e for p, x in inst.vars.items()}}
            area = []
            cxx.marshal(sch1, T, inst.value, area, enum_bits=64)

            # ---------------- Encode: same frame from both wrappers
            m.mem, m.brk = dict(snap0), brk0
            argp = m.alloc(len(area) + 16)
            _put(m, argp, area)
            o1, o2 = m.alloc(32), m.alloc(32)
            _put(m, o1, [0x55] * 32)
            _put(m, o2, [0x55] * 32)
            snap, brk = dict(m.mem), m.brk
            eng = Engine(timeout_ms=tmo, max_paths=200)

            def enc_body():
                m.mem, m.brk = dict(snap), brk
                return enc_side(0, which, argp, o1) + enc_side(sp, which, argp, o2)

            def mk_enc(mdl, which=which, area=area, inst=inst):
                return dict(base, kind="can_dyn_encode", which=which, value=to_json(concretize(inst.value, mdl)),
                            area=[x if isinstance(x, int) else mdl.eval(x, model_completion=True).as_long() for x in area])

            try:
                for pi, (kind, out, pc) in enumerate(eng.explore(enc_body, assume)):
                    ob = f"{desc}|dynamic|{sn}|encode|path{pi}"
                    if kind == "exc":
                        res["inconclusive"].append(f"{ob}: interpreter stopped: {type(out).__name__}: {str(out)[:200]}")
                        continue
                    a, fa, bb, fb = out
                    reached.add((sn, "encode"))
                    dyn_data = predicted = None
                    if a != bb or (fa is None) != (fb is None):
                        viol, why = z3.BoolVal(True), f"static {a}{'' if fa is not None else ' no frame'}, dynamic {bb}{'' if fb is not None else ' no frame'}"
                    elif fa is None:
                        viol, why = z3.BoolVal(False), "both give no frame"
                    else:
                        da, db = _const_byte(eng, pc, fa[6]), _const_byte(eng, pc, fb[6])
                        if not (isinstance(da, int) and isinstance(db, int)):
                            raise EngineLimit("dlc is symbolic")
                        # the open finding explains a difference only if the WHOLE dynamic frame is the static header with
                        # the per-field byte-aligned payload: (bus, sid) of the static frame, dlc = its size, data = those bytes
                        dyn_data = [llsym.bv(x, 8) for x in fb[:7 + min(db, 8)]]
                        predicted = [llsym.bv(x, 8) for x in fa[:6]] + [z3.BitVecVal(len(aligned), 8)] + list(aligned)
                        n = 7 + max(min(da, 8), min(db, 8))
                        viol = z3.Not(z3.And(*[llsym.bv(x, 8) == llsym.bv(y, 8) for x, y in zip(fa[:n], fb[:n])]))
                        why = "frames differ (bus[4] sid[2] dlc data[dlc])"
                    env_e = dict(env, dyn=dyn_data, field_aligned=predicted if dyn_data is not None else aligned, zip=zip, len=len)
                    decide(eng, pc, viol, prop="C18", ob_id=ob, res=res, known=known, features=dict(feats, obligation="encode"),
                           env=env_e, make_replay=mk_enc, what=f"static vs reflection-loaded Can::Encode({sn!r}, v) on [{desc}]: {why}")
            except EngineLimit as e:
                res["inconclusive"].append(f"{desc}|dynamic|{sn}|encode: engine limit: {e}")
            # one witness per schema also runs natively at -O0 under AddressSanitizer/UBSan: undefined behaviour that the
            # optimiser removes from the -O1 IR the interpreter sees (a dead out-of-bounds copy) still shows there
            if sn == max((x[0] for x in structs), key=len):
                ob = f"{desc}|dynamic|{sn}|encode|native-O0-sanitized"
                res["obligations"].append(ob)
                r_, mdl_ = eng.check(pc=list(assume))
                if r_ != "sat":
                    res["inconclusive"].append(f"{ob}: no witness value ({r_})")
                else:
                    payload = dict(mk_enc(mdl_), sanitize=True, obligation=ob,
                                   what=f"Can::Encode({sn!r}, witness) natively at -O0 with sanitizers on [{desc}]")
                    path = write_replay("C18", payload)
                    okr, text = run_replay(path)
                    if okr is True and not (known.matching(dict(feats, obligation="encode")) and "!= reflection-loaded" in text
                                            and "Sanitizer" not in text and "crashed" not in text):
                        res["violations"].append({"replay": path, "ob": ob, "what": f"{payload['what']} :: {text[-300:]}"})
                    elif okr is None:
                        res["inconclusive"].append(f"{ob}: replay harness failed: {text[-200:]}")
                    else:
                        res["discharged"] += 1
            finish_engine(res, eng)

            # ---------------- Decode of the canonical frame: same name and value from both wrappers
            m.mem, m.brk = dict(snap0), brk0
            frame = tag_of(bus) + [sid & 0xFF, sid >> 8, len(canon)] + list(canon) + [0] * (8 - len(canon))
            inp = m.alloc(16)
            _put(m, inp, frame)
            n1, n2, a1, a2, c1, c2 = m.alloc(64), m.alloc(64), m.alloc(512), m.alloc(512), m.alloc(8), m.alloc(8)
            for q in (n1, n2, c1, c2):
                _put(m, q, [0] * 8)
            snap, brk = dict(m.mem), m.brk
            eng = Engine(timeout_ms=tmo, max_paths=200)

            def dec_body():
                m.mem, m.brk = dict(snap), brk
                return dec_side(0, inp, n1, a1, c1) + dec_side(sp, inp, n2, a2, c2)

            def mk_dec(mdl, frame=frame):
                return dict(base, kind="can_dyn_decode", frame=[x if isinstance(x, int) else mdl.eval(x, model_completion=True).as_long() for x in frame])

            try:
                for pi, (kind, out, pc) in enumerate(eng.explore(dec_body, assume)):
                    ob = f"{desc}|dynamic|{sn}|decode|path{pi}"
                    if kind == "exc":
                        res["inconclusive"].append(f"{ob}: interpreter stopped: {type(out).__name__}: {str(out)[:200]}")
                        continue
                    a, na, da, bb, nb_, db = out
                    reached.add((sn, "decode"))
                    if a[0] != bb[0] or (na is None) != (nb_ is None) or na != nb_:
                        viol, why = z3.BoolVal(True), f"static {a} {na!r}, dynamic {bb} {nb_!r}"
                    elif na is None:
                        viol, why = z3.BoolVal(False), "both unknown"
                    elif len(da) != len(db):
                        viol, why = z3.BoolVal(True), "values differ in shape"
                    else:
                        viol = z3.Not(z3.And(*[llsym.bv(x, 8) == llsym.bv(y, 8) for x, y in zip(da, db)])) if da else z3.BoolVal(False)
                        why = "decoded values differ"
                    decide(eng, pc, viol, prop="C18", ob_id=ob, res=res, known=known, features=dict(feats, obligation="decode"),
                           env=env, make_replay=mk_dec, what=f"static vs reflection-loaded Can::Decode(frame of {sn}) on [{desc}]: {why}")
            except EngineLimit as e:
                res["inconclusive"].append(f"{desc}|dynamic|{sn}|decode: engine limit: {e}")
            finish_engine(res, eng)

        # ---------------- any (sid, bus): both wrappers name the same binding or both say unknown (payload bytes zero)
        m.mem, m.brk = dict(snap0), brk0
        fr = [z3.BitVec(f"bus{i}", 8) for i in range(4)] + [z3.BitVec("sid_lo", 8), z3.BitVec("sid_hi", 8), z3.BitVec("dlc", 8)] + [0] * 8
        sidv = z3.Concat(fr[5], fr[4])
        inp = m.alloc(16)
        _put(m, inp, fr)
        n1, n2, a1, a2, c1, c2 = m.alloc(64), m.alloc(64), m.alloc(512), m.alloc(512), m.alloc(8), m.alloc(8)
        for q in (n1, n2, c1, c2):
            _put(m, q, [0] * 8)
        snap, brk = dict(m.mem), m.brk
        eng = Engine(timeout_ms=tmo, max_paths=600)
        unjudged = z3.Or(*([sidv == sid for _, sid, bus in binds if bus is None] or [z3.BoolVal(False)]))

        def any_body():
            m.mem, m.brk = dict(snap), brk
            return dec_side(0, inp, n1, a1, c1)[:2] + dec_side(sp, inp, n2, a2, c2)[:2]

        def mk_any(mdl):
            return dict(base, kind="can_dyn_decode", names_only=True, frame=[x if isinstance(x, int) else mdl.eval(x, model_completion=True).as_long() for x in fr])

        try:
            for pi, (kind, out, pc) in enumerate(eng.explore(any_body, [])):
                ob = f"{desc}|dynamic|any-frame|path{pi}"
                if kind == "exc":
                    res["inconclusive"].append(f"{ob}: interpreter stopped: {type(out).__name__}: {str(out)[:200]}")
                    continue
                a, na, bb, nb_ = out
                reached.add(("any", "x"))
                same = (a[0] == bb[0] and na == nb_)
                decide(eng, pc, z3.BoolVal(False) if same else z3.Not(unjudged), prop="C18", ob_id=ob, res=res, known=known,
                       features={"desc": desc, "obligation": "dispatch", "all_widths_byte_multiples": True}, env={}, make_replay=mk_any,
                       what=f"static vs reflection-loaded Can::Decode on [{desc}]: static {a} {na!r}, dynamic {bb} {nb_!r}")
        except EngineLimit as e:
            res["inconclusive"].append(f"{desc}|dynamic|any-frame: engine limit: {e}")
        finish_engine(res, eng)
        want = {(sn, k) for sn, _ in structs for k in ("encode", "decode")} | {("any", "x")}
        res["vacuity"]["dynamic: entry points reached to their end"] = len(want & reached)
        res["vacuity"]["dynamic: entry points never reached"] = len(want - reached)
        if want - reached and not res["violations"] and not res["inconclusive"]:
            res["inconclusive"].append(f"{desc}|dynamic: never reached the end of {sorted(want - reached)}")
        res["functions"] = ["can.h:fcp::can::Can::Encode/Decode", "generated:can_static_schema.h:CanStaticSchema::*",
                            "can_dynamic_schema.h:CanDynamicSchema::Encode/Decode/GetMsgName/GetId/GetBus",
                            "generated:dynamic.h:DynamicSchema::LoadBinarySchema/EncodeJson/DecodeJson/GetImpls",
                            "generated:fcp.h:StaticSchema::EncodeJson/DecodeJson + <S>::FromJson/DecodeJson/Encode/Decode",
                            "nlohmann/json.hpp (interpreted)"]
        res["sample"] = {"schema": desc, "part": "static vs reflection-loaded", "ir_steps": m.steps, "paths": res["paths"], "queries": res["queries"]}
    return res


def _dispatch(args):
    return c18_dyn_case(args[1:]) if args[0] == "dyn" else c18_case(args[1:])


def run_c18(tier: str) -> int:
    rep = Report("C18", tier)
    fam = c18_family(tier, seed())
    rep.bounds = {
        "schemas": len(fam),
        "family": "verif.checks.can_checks.c18_family: 1..4 CAN bindings named after their struct, ids in 0..2047 "
                  "(0, 255/256/257, 1023/1024, 2046/2047 included), bus names of 1..4 characters (names that prefix one "
                  "another, same id on different buses, same bus with different ids), payload structs of 1..64 bits "
                  "(u/i/enum/fixed array/nested struct, ids out of declaration order); bus-less and non-CAN bindings present",
        "values": "Encode: every in-range value of the bound struct; Decode: the frame of every in-range value, and every "
                  "frame (sid 16 bit, bus 4 bytes, dlc, 8 data bytes all symbolic) for the 'matches no binding' clause",
        "ir": "clang++-14 -std=c++17 -O1 IR of a harness TU including the generated can_static_schema.h / can.h / fcp.h",
        "static_vs_dynamic": "second part (3 schemas quick, all thorough): Can{CanStaticSchema} vs Can{CanDynamicSchema(loaded from the "
                             "tool's reflection binary)} on real JSON values - same frames for every in-range value, same name and value "
                             "for the canonical frame, same verdict for every (sid, 4 bus bytes, dlc) with zero payload; nothing modelled",
        "outside": "part 1 models the json <-> typed value conversions (<S>::FromJson, <S>::DecodeJson; part 2 runs them); bindings "
                   "without a bus, payloads above 8 bytes, bytes of frame.data beyond dlc",
    }
    rep.stubs = ["part 1 only: <S>::FromJson(json) returns the typed value built by the harness from a symbolic argument area; "
                 "<S>::DecodeJson() dumps the typed value, returns json null",
                 "part 2: red-black tree insertion without rebalancing, basic_string members, strtol/log2/to_string (verif/cxxnatives.py)",
                 "operator new/delete (fresh 0xAA-filled block)", "basic_string::_M_create/_M_mutate (libstdc++ rules)",
                 "basic_string::compare(const char*) / memcmp (lexicographic, symbolic bytes allowed) / strlen",
                 "__cxa_throw & std::__throw_* end the path as a C++ exception", "llvm.* intrinsics"]
    rep.assumptions = ["the harness goes through fcp::can::Can{std::make_shared<CanStaticSchema>()} (virtual dispatch through the vtable; "
                       "the shared_ptr's atomic reference counting is executed as plain single-thread operations)",
                       "a null json is handed through Encode; its copies and destructors are interpreted",
                       "oracle: refspec canonical bytes; bus tag = the bus name followed by NUL bytes up to 4",
                       "counterexamples are replayed through fcp::can::Can and real JSON, compiled with clang++ and g++"]
    dyn = fam if tier == "thorough" else [fam[1], fam[2], fam[4], fam[7], fam[9]]
    cases = [("dyn", s, tier) for s in dyn] + [("static", s, tier) for s in fam]
    for r in pmap(_dispatch, cases):
        rep.merge(r)
        if rep.red_enough():
            break
    return rep.finish()
