"""C03: generated C++ static codec (fcp.h + buffer.h + decoders.h) through llsym on clang-14 -O1 IR."""
from __future__ import annotations

import os
import random

import z3

from .. import refspec, llsym, cxx
from ..common import Known, Report, pmap, seed, add_repo_paths, write_replay, run_replay
from ..decide import decide, new_result, finish_engine
from ..native import Scratch
from ..pysym import Engine, EngineLimit, SymInt, SymFloat, concretize
from ..shapes import Schema, mk_enum, single, is_fixed, fixed_bits, has_kind
from ..values import Inst, instances, to_json


class CxxThrow(Exception):
    pass


def install_natives(m):
    _install_natives(m)
    # out-of-line libstdc++/libc members (string copy/assign/append/reserve, rb-tree, strtol, ...): same models as C13/C18
    from .. import cxxnatives
    cxxnatives.install(m)


def _install_natives(m):
    def znwm(mach, n):
        if not isinstance(n, int):
            raise EngineLimit("operator new with a symbolic size")
        a = mach.alloc(n, 16)
        for i in range(n):
            mach.mem[a + i] = 0xAA      # garbage marker: reads of uninitialised heap show up
        return a

    def m_create(mach, this, cap_ref, old):
        cap = mach.load(cap_ref, llsym.T("int", n=64))
        if not isinstance(cap, int) or not isinstance(old, int):
            raise EngineLimit("basic_string::_M_create with symbolic capacity")
        if cap > old and cap < 2 * old:
            cap = 2 * old
            mach.store(cap_ref, llsym.T("int", n=64), cap)
        return znwm(mach, cap + 1)

    def m_mutate(mach, this, pos, len1, sp, len2):
        """basic_string::_M_mutate(pos, len1, s, len2): reallocate and splice (libstdc++ layout: ptr, length, {cap|buf[16]})."""
        I64 = llsym.T("int", n=64)
        p = mach.load(this, I64)
        length = mach.load(this + 8, I64)
        if not all(isinstance(x, int) for x in (p, length, pos, len1, len2, sp)):
            raise EngineLimit("basic_string::_M_mutate with symbolic arguments")
        cap = 15 if p == this + 16 else mach.load(this + 16, I64)
        how_much = length - pos - len1
        new_cap = length + len2 - len1
        if new_cap > cap and new_cap < 2 * cap:
            new_cap = 2 * cap
        r = znwm(mach, new_cap + 1)
        for i in range(pos):
            mach.mem[r + i] = mach.readbyte(p + i)
        if sp and len2:
            for i in range(len2):
                mach.mem[r + pos + i] = mach.readbyte(sp + i)
        for i in range(how_much):
            mach.mem[r + pos + len2 + i] = mach.readbyte(p + pos + len1 + i)
        mach.store(this, I64, r)
        mach.store(this + 16, I64, new_cap)
        return None

    def lexcmp(xs, ys, tail):
        """sign of the first differing byte pair (unsigned), else tail; concrete when the bytes are."""
        r = tail
        for x, y in reversed(list(zip(xs, ys))):
            if isinstance(x, int) and isinstance(y, int):
                if x != y:
                    r = (1 if x > y else -1) & 0xFFFFFFFF
                continue
            bx, by = llsym.bv(x, 8), llsym.bv(y, 8)
            rr = r if not isinstance(r, int) else z3.BitVecVal(r, 32)
            r = z3.If(bx == by, rr, z3.If(z3.ULT(bx, by), z3.BitVecVal(0xFFFFFFFF, 32), z3.BitVecVal(1, 32)))
        return r

    def memcmp(mach, a, b, n):
        n = llsym.small_int(n, 256)
        return lexcmp([mach.readbyte(a + i) for i in range(n)], [mach.readbyte(b + i) for i in range(n)], 0)

    def str_compare_cstr(mach, this, cstr):
        """basic_string::compare(const char*) over the libstdc++ layout {ptr, length, ...}; lengths concrete."""
        I64 = llsym.T("int", n=64)
        p, n = mach.load(this, I64), llsym.small_int(mach.load(this + 8, I64))
        if not isinstance(p, int):
            raise EngineLimit("basic_string::compare on a string at a symbolic address")
        k = strlen(mach, cstr)
        c = min(n, k)
        d = n - k
        tail = 0 if d == 0 else ((1 if d > 0 else -1) & 0xFFFFFFFF)
        return lexcmp([mach.readbyte(p + i) for i in range(c)], [mach.readbyte(cstr + i) for i in range(c)], tail)

    def strlen(mach, p):
        n = 0
        while True:
            b = mach.readbyte(p + n)
            if not isinstance(b, int):
                raise EngineLimit("strlen on symbolic bytes")
            if b == 0:
                return n
            n += 1

    def thrower(name):
        def f(mach, *a):
            raise CxxThrow(name)
        return f

    m.natives["@_Znwm"] = znwm
    m.natives["@_Znam"] = znwm
    m.natives["@_ZdlPv"] = lambda mach, p: None
    m.natives["@_ZdaPv"] = lambda mach, p: None
    m.natives["@_ZdlPvm"] = lambda mach, p, n: None
    m.natives["@_ZNSt7__cxx1112basic_stringIcSt11char_traitsIcESaIcEE9_M_createERmm"] = m_create
    m.natives["@_ZNSt7__cxx1112basic_stringIcSt11char_traitsIcESaIcEE9_M_mutateEmmPKcm"] = m_mutate
    m.natives["@_ZNKSt7__cxx1112basic_stringIcSt11char_traitsIcESaIcEE7compareEPKc"] = str_compare_cstr
    m.natives["@memcmp"] = memcmp
    m.natives["@bcmp"] = memcmp
    m.natives["@strlen"] = strlen
    for d in list(m.mod.decls):
        n = d[1:].strip('"')
        if n.startswith("_ZSt") and "throw" in n or n.startswith("__cxa_throw") or n in ("__cxa_allocate_exception", "_ZSt9terminatev", "abort"):
            m.natives[d] = thrower(n)
    m.natives["@__cxa_begin_catch"] = lambda mach, p: p
    m.natives["@__cxa_end_catch"] = lambda mach: None
    m.natives["@__gxx_personality_v0"] = lambda mach, *a: 0
    # function-local statics (Itanium ABI guard variables), one thread: the first byte of the guard says "initialised"
    I8 = llsym.T("int", n=8)

    def guard_acquire(mach, g):
        b = mach.load(g, I8)
        if not isinstance(b, int):
            raise EngineLimit("guard variable is symbolic")
        return 0 if b & 1 else 1

    def guard_release(mach, g):
        mach.store(g, I8, 1)
        return None

    m.natives["@__cxa_guard_acquire"] = guard_acquire
    m.natives["@__cxa_guard_release"] = guard_release
    m.natives["@__cxa_guard_abort"] = lambda mach, g: None
    m.natives["@__cxa_atexit"] = lambda mach, *a: 0       # destructors of statics at exit are not run


def _instances_c03(schema, tier):
    """The tier's length patterns, plus - for a dynamic array of sub-byte elements - one instance with more elements than
    the whole message has bytes (a bit-packed format can carry that; a bound in whole bytes cannot)."""
    yield from instances(schema, tier)

    def sub_byte_dyn(t):
        k = t[0]
        if k == "dyn":
            e = t[1]
            return (e[0] in ("u", "i") and e[1] < 4) or sub_byte_dyn(e)
        if k in ("arr", "opt"):
            return sub_byte_dyn(t[1])
        return False

    if any(sub_byte_dyn(t) for _, fs in schema.structs for _, _, t in fs):
        yield Inst(schema, [14])


def c03_family(tier, sd=0):
    E = {"E5": mk_enum("E5", 5), "E1": mk_enum("E1", 1), "E200": mk_enum("E200", 200), "E8": mk_enum("E8", 8)}
    fam = []

    def add(fields, enums=None, structs=None):
        fam.append(single(fields, enums, structs))

    widths = [1, 3, 7, 8, 9, 13, 16, 17, 31, 32, 33, 63, 64] if tier == "quick" else list(range(1, 65))
    for n in widths:
        add([("u", 3), ("u", n), ("i", n), ("u", 2)])
    add([("u", 3), ("i", 13), ("f32",), ("enum", "E5"), ("f64",)], E)
    add([("enum", "E1"), ("enum", "E200"), ("enum", "E8"), ("enum", "E5"), ("u", 1)], E)
    add([("f32",), ("u", 1), ("f64",), ("i", 2)])
    In = ("In", [("p", 0, ("u", 5)), ("q", 1, ("i", 11))])
    add([("u", 4), ("struct", "In"), ("i", 9)], structs=[In])
    add([("arr", ("u", 6), 3), ("arr", ("i", 9), 2), ("u", 1)])
    add([("u", 3), ("arr", ("f32",), 2), ("arr", ("enum", "E5"), 3)], E)
    add([("u", 3), ("opt", ("i", 13)), ("dyn", ("u", 5))])
    add([("dyn", ("u", 1)), ("u", 16)])          # may hold more elements than the message has bytes
    add([("u", 4), ("dyn", ("u", 3)), ("u", 7)])
    add([("u", 3), ("str",), ("i", 5)])
    add([("dyn", ("i", 16)), ("opt", ("f32",)), ("u", 1)])
    add([("opt", ("u", 64)), ("opt", ("enum", "E5"))], E)
    add([("u", 2), ("dyn", ("f64",))])
    add([("a", 2, ("u", 3)), ("b", 0, ("i", 13)), ("c", 1, ("u", 8))])     # ids not in declaration order
    add([("a", 2, ("u", 8)), ("b", 0, ("u", 8)), ("c", 1, ("u", 8))])      # ... with members of one C++ type (a mix-up compiles)
    add([("arr", ("struct", "In"), 2), ("u", 3)], structs=[In])
    add([("u", 3), ("enum", "E256"), ("enum", "E65535"), ("u", 2)], {"E256": mk_enum("E256", 256), "E65535": mk_enum("E65535", 65535)})
    add([("enum", "Ebig"), ("u", 1)], {"Ebig": mk_enum("Ebig", 2 ** 31 - 1)})
    # rpc envelopes: the structs the generator derives from a service (<Payload>Input/Output = service id, method id,
    # payload) are structs of the generated header as well; expectation written from the documented 8+8 bit rpc header
    Req = ("Req", [("a", 0, ("u", 7)), ("b", 1, ("i", 5))])
    Resp = ("Resp", [("r", 0, ("u", 12))])
    for sid, mid, topn, pay in ((2, 1, "ReqInput", "Req"), (2, 1, "RespOutput", "Resp"), (200, 130, "ReqInput", "Req")):
        env = (topn, [("service_id", 0, ("enum", "ServiceId")), ("method_id", 1, ("enum", "SvcMethodId")),
                      ("payload", 2, ("struct", pay))])
        fam.append(Schema(structs=[Req, Resp, env], top=topn, hidden=("ServiceId", "SvcMethodId", topn),
                          enums={"ServiceId": [("Svc", sid), ("Size", 255)], "SvcMethodId": [("Call", mid), ("Size", 255)]},
                          extra="service Svc @%d {\n    method Call(Req) @%d returns Resp,\n}\n" % (sid, mid)))
    if tier == "thorough":
        add([("u", 3), ("opt", ("struct", "In")), ("i", 2)], structs=[In])
        add([("u", 1), ("dyn", ("struct", "In"))], structs=[In])
        add([("dyn", ("str",)), ("u", 3)])
        add([("opt", ("dyn", ("u", 5))), ("u", 2)])
        add([("dyn", ("opt", ("u", 7))), ("i", 3)])
        rng = random.Random(sd)
        from ..shapes import random_schema
        for _ in range(30):
            fam.append(random_schema(rng, include_enums=True, fixed_only=True, depth=1, maxfields=4))
    seen, out = set(), []
    for s in fam:
        if (s.text(), s.top) not in seen:
            seen.add((s.text(), s.top))
            out.append(s)
    return out


def c03_case(args):
    schema, tier = args
    add_repo_paths()
    res = new_result()
    known = Known("C03")
    top = schema.top
    T = ("struct", top)
    desc = schema.describe()
    fixed = is_fixed(schema, T)
    feats = {"desc": desc, "fixed": fixed,
             "has_enum": has_kind(schema, T, ("enum",)), "decl_in_id_order": all(
                 [fid for _, fid, _ in fs] == sorted(fid for _, fid, _ in fs) for _, fs in schema.structs),
             "has_array_of_struct": any(t[0] == "arr" and t[1][0] == "struct" for _, fs in schema.structs for _, _, t in fs),
             "enum_max": max([schema.enum_max(e) for e in schema.enums] or [0])}
    with Scratch() as d:
        ob = f"{desc}|compiles"
        res["obligations"].append(ob)
        try:
            from ..prime import prime, decoy_text
            dtext = decoy_text(schema)
            prime(dtext, ("cpp",))
            cxx.generate_cpp(schema.text(), d)
            open(os.path.join(d, "harness.cpp"), "w").write(cxx.harness_source(schema))
            ok, ll = cxx.compile_to_ir(d)
            ok2, err2 = cxx.syntax_check(d, "g++") if ok else (True, "")
        except Exception as e:
            ok, ll, ok2, err2 = False, f"{type(e).__name__}: {e}", True, ""
        if not ok or not ok2:
            err = ll if not ok else err2
            hits = known.matching(feats)
            hit = [f for f in hits if f.get("obligation") == "compiles"]
            if hit:
                res["known"].append((hit[0]["id"], hit[0]["what"]))
                res["discharged"] += 1
                return res
            path = write_replay("C03", {"kind": "cpp_compile", "schema_text": schema.text(), "property": "C03", "decoy_text": decoy_text(schema),
                                        "schema": {"structs": schema.structs, "enums": schema.enums, "top": top}})
            okr, text = run_replay(path)
            if okr:
                res["violations"].append({"replay": path, "ob": ob, "what": f"generated C++ does not compile for {desc}: {str(err)[-300:]}"})
            else:
                res["unconfirmed"].append(f"{ob}: compile failure did not replay: {str(err)[-200:]}")
            return res
        res["discharged"] += 1
        mod = llsym.Mod()
        llsym.parse_module(open(ll).read(), mod)
        steps = 0
        for ii, inst in enumerate(_instances_c03(schema, tier)):
            canon = refspec.canon_bytes(schema, T, inst.value)
            # ---- Encode: typed value -> bytes
            m = llsym.Machine(mod)
            install_natives(m)
            area = []
            cxx.marshal(schema, T, inst.value, area)
            argp = m.alloc(len(area) + 16)
            for i, b in enumerate(area):
                m.mem[argp + i] = b
            outp = m.alloc(len(canon) + 64)
            for i in range(len(canon) + 64):
                m.mem[outp + i] = 0
            snap, brk = dict(m.mem), m.brk
            eng = Engine(timeout_ms=240000 if tier == "quick" else 600000, max_paths=200)

            def enc_body():
                m.mem = dict(snap)
                m.brk = brk
                n = llsym.run(m, "@enc", [argp, outp])
                if not isinstance(n, int):
                    raise EngineLimit("encoded size is symbolic")
                return n, [m.mem[outp + i] for i in range(n)]

            def mk(mdl, canon=canon):
                val = concretize(inst.value, mdl)
                return {"kind": "cpp_encode", "schema_text": schema.text(), "top": top, "value": to_json(val), "decoy_text": dtext,
                        "schema": {"structs": schema.structs, "enums": schema.enums, "top": top},
                        "expected_bytes": [mdl.eval(b, model_completion=True).as_long() for b in canon]}

            env = {"v": {p: x.e for p, x in inst.vars.items()},
                   "enums": {p: True for p, (k, w) in inst.kinds.items() if k == "enum"}}
            try:
                for pi, (kind, out, pc) in enumerate(eng.explore(enc_body, inst.assume)):
                    ob = f"{desc}|inst{ii}|encode|path{pi}"
                    if kind == "exc":
                        if isinstance(out, CxxThrow):
                            decide(eng, pc, z3.BoolVal(True), prop="C03", ob_id=ob, res=res, known=known,
                                   features=feats, env=env, make_replay=mk, what=f"Encode threw {out} on {desc}")
                        else:
                            res["inconclusive"].append(f"{ob}: interpreter stopped: {type(out).__name__}: {str(out)[:200]}")
                        continue
                    n, bs = out
                    if n != len(canon):
                        viol = z3.BoolVal(True)
                    else:
                        viol = z3.Not(z3.And(*[llsym.bv(x, 8) == c for x, c in zip(bs, canon)])) if canon else z3.BoolVal(False)
                    decide(eng, pc, viol, prop="C03", ob_id=ob, res=res, known=known, features=feats, env=env,
                           make_replay=mk, what=f"C++ Encode bytes != canonical bytes on {desc}")
            except EngineLimit as e:
                res["inconclusive"].append(f"{desc}|inst{ii}|encode: engine limit: {e}")
            finish_engine(res, eng)
            steps += m.steps
            # ---- Decode
            m = llsym.Machine(mod)
            install_natives(m)
            nb = len(canon)
            if fixed:
                raw = [z3.BitVec(f"buf{i}", 8) for i in range(nb)]     # arbitrary buffer of the canonical length
                assume = []
            else:
                raw = canon                                             # canonical image of the symbolic value
                assume = inst.assume
            inp = m.alloc(nb + 16)
            for i, b in enumerate(raw):
                m.mem[inp + i] = z3.simplify(b).as_long() if z3.is_bv_value(z3.simplify(b)) else b
            areap = m.alloc(4096)
            for i in range(4096):
                m.mem[areap + i] = 0
            snap, brk = dict(m.mem), m.brk
            eng = Engine(timeout_ms=240000 if tier == "quick" else 600000, max_paths=200)

            def dec_body():
                m.mem = dict(snap)
                m.brk = brk
                n = llsym.run(m, "@dec", [inp, nb, areap])
                if not isinstance(n, int):
                    raise EngineLimit("dump size is symbolic")
                return n, [m.mem[areap + i] for i in range(n)]

            def mkd(mdl, raw=raw):
                d_ = {"kind": "cpp_decode", "schema_text": schema.text(), "top": top, "decoy_text": dtext,
                      "schema": {"structs": schema.structs, "enums": schema.enums, "top": top},
                      "bytes": [mdl.eval(b, model_completion=True).as_long() if not isinstance(b, int) else b for b in raw]}
                return d_

            try:
                nonnan = []
                if fixed:
                    word = z3.Concat(*reversed(raw)) if nb > 1 else raw[0]
                    leaves = refspec.decanon_leaves(schema, T, word, 8 * nb)
                    for p_, k_, w_, rawbits in leaves:
                        if k_ in ("f32", "f64"):
                            nonnan.append(z3.Not(z3.fpIsNaN(z3.fpBVToFP(rawbits, z3.Float32() if k_ == "f32" else z3.Float64()))))
                for pi, (kind, out, pc) in enumerate(eng.explore(dec_body, assume + nonnan)):
                    ob = f"{desc}|inst{ii}|decode|path{pi}"
                    if kind == "exc":
                        if isinstance(out, CxxThrow):
                            decide(eng, pc, z3.BoolVal(True), prop="C03", ob_id=ob, res=res, known=known,
                                   features=feats, env=env, make_replay=mkd, what=f"Decode threw {out} on {desc}")
                        else:
                            res["inconclusive"].append(f"{ob}: interpreter stopped: {type(out).__name__}: {str(out)[:200]}")
                        continue
                    n, bs = out
                    exp = []
                    if fixed:
                        got, _ = cxx.unmarshal_fixed(schema, T, bs + [0] * 64)
                        # dump order is declaration order; leaves are in wire (id) order: match by path
                        byp = {p_: (k_, w_, r_) for p_, k_, w_, r_ in leaves}
                        for p_, k_, c_, term in got:
                            lk, lw, lraw = byp[p_]
                            e_ = lraw if k_ in ("f32", "f64") else refspec.value_of_leaf(lk, lw, lraw, c_)
                            exp += [z3.Extract(8 * i + 7, 8 * i, e_) for i in range(c_ // 8)]
                    else:
                        cxx.marshal(schema, T, inst.value, exp, enum_bits=64)
                    if len(exp) != n:
                        viol = z3.BoolVal(True)
                    else:
                        viol = z3.Not(z3.And(*[llsym.bv(a, 8) == llsym.bv(b, 8) for a, b in zip(bs, exp)])) if exp else z3.BoolVal(False)

                    def mkd2(mdl, raw=raw, exp=exp):
                        d_ = mkd(mdl, raw)
                        d_["expected_area"] = [mdl.eval(llsym.bv(b, 8), model_completion=True).as_long() for b in exp]
                        return d_
                    decide(eng, pc, viol, prop="C03", ob_id=ob, res=res, known=known, features=feats, env=env,
                           make_replay=mkd2, what=f"C++ Decode of {'an arbitrary buffer' if fixed else 'the canonical bytes'} "
                                                 f"!= reference decoding on {desc}")
            except EngineLimit as e:
                res["inconclusive"].append(f"{desc}|inst{ii}|decode: engine limit: {e}")
            finish_engine(res, eng)
            steps += m.steps
        res["functions"] = [f"generated:fcp.h:{top}::Encode", f"generated:fcp.h:{top}::Decode", "buffer.h:Buffer::*",
                            "decoders.h:*"]
        res["sample"] = {"schema": desc, "fixed_size": fixed, "ir_steps": steps, "paths": res["paths"],
                         "queries": res["queries"]}
    return res


def c03_json_case(args):
    """The property's own observation point: StaticSchema::EncodeJson / DecodeJson, with real nlohmann::json values built by
    harness code from a flat symbolic argument area (verif/cxx.py:dyn_harness_source(dynamic=False)); oracle: refspec."""
    schema, tier = args
    add_repo_paths()
    from .. import cxxnatives
    res = new_result()
    known = Known("C03")
    top = schema.top
    T = ("struct", top)
    desc = schema.describe()
    feats = {"desc": desc, "fixed": is_fixed(schema, T), "has_enum": has_kind(schema, T, ("enum",)), "entry": "json",
             "decl_in_id_order": all([fid for _, fid, _ in fs] == sorted(fid for _, fid, _ in fs) for _, fs in schema.structs),
             "has_array_of_struct": any(t[0] == "arr" and t[1][0] == "struct" for _, fs in schema.structs for _, _, t in fs),
             "enum_max": max([schema.enum_max(e) for e in schema.enums] or [0])}
    base = {"schema_text": schema.text(), "top": top, "schema": {"structs": schema.structs, "enums": schema.enums, "top": top}}
    with Scratch() as d:
        try:
            from ..prime import prime, decoy_text
            base["decoy_text"] = decoy_text(schema)
            prime(base["decoy_text"], ("cpp",))
            cxx.generate_cpp(schema.text(), d)
            open(os.path.join(d, "harness.cpp"), "w").write(cxx.dyn_harness_source(schema, dynamic=False))
            ok, ll = cxx.compile_to_ir(d)
        except Exception as e:
            ok, ll = False, f"{type(e).__name__}: {e}"
        if not ok:
            res["inconclusive"].append(f"{desc}|json: harness TU did not compile (the typed case of this schema reports compile errors): {str(ll)[-200:]}")
            return res
        mod = llsym.Mod()
        llsym.parse_module(open(ll).read(), mod)
        steps = 0
        for ii, inst in enumerate(instances(schema, tier)):
            nonnan = [z3.Not(z3.fpIsNaN(z3.fpBVToFP(inst.vars[p_].e, z3.Float32() if k_ == "f32" else z3.Float64())))
                      for p_, (k_, _) in inst.kinds.items() if k_ in ("f32", "f64")]
            assume = inst.assume + nonnan
            canon = refspec.canon_bytes(schema, T, inst.value)
            area, exp_dump = [], []
            cxx.marshal(schema, T, inst.value, area, enum_bits=64)
            cxx.marshal(schema, T, inst.value, exp_dump, enum_bits=64, iflag=True)
            env = {"v": {p: x.e for p, x in inst.vars.items()},
                   "enums": {p: True for p, (k, w) in inst.kinds.items() if k == "enum"}}
            m = llsym.Machine(mod)
            install_natives(m)
            cxxnatives.install(m)
            m.step_budget = 8_000_000      # ~100x the largest legitimate run: a loop that does not end is an EngineLimit
            argp = m.alloc(len(area) + 16)
            inp = m.alloc(len(canon) + 16)
            outp = m.alloc(len(canon) + 256)
            areap = m.alloc(len(exp_dump) + 256)
            for base_, bs in ((argp, area), (inp, canon)):
                for i, b in enumerate(bs):
                    if not isinstance(b, int):
                        sb = z3.simplify(b)
                        b = sb.as_long() if z3.is_bv_value(sb) else sb
                    m.mem[base_ + i] = b
            snap, brk = dict(m.mem), m.brk
            for direction, fn, fargs, want in (("encode", "@sta_enc", [argp, outp], canon), ("decode", "@sta_dec", [inp, len(canon), areap], exp_dump)):
                eng = Engine(timeout_ms=240000 if tier == "quick" else 600000, max_paths=200)
                dst = fargs[-1]

                def body(fn=fn, fargs=fargs, dst=dst):
                    m.mem, m.brk = dict(snap), brk
                    n = llsym.run(m, fn, fargs)
                    if not isinstance(n, int):
                        raise EngineLimit("result size is symbolic")
                    n = llsym.sext(n, 64)
                    return n, [m.mem[dst + i] for i in range(max(n, 0))]

                def mk(mdl, direction=direction, want=want, inst=inst, area=area, canon=canon):
                    ev = lambda bs: [b if isinstance(b, int) else mdl.eval(b, model_completion=True).as_long() for b in bs]
                    return dict(base, kind="cpp_json", direction=direction, value=to_json(concretize(inst.value, mdl)),
                                input=ev(area if direction == "encode" else canon), expected=ev(want))

                try:
                    for pi, (kind, out, pc) in enumerate(eng.explore(body, assume)):
                        ob = f"{desc}|json|inst{ii}|{direction}|path{pi}"
                        if kind == "exc":
                            if isinstance(out, CxxThrow):
                                decide(eng, pc, z3.BoolVal(True), prop="C03", ob_id=ob, res=res, known=known, features=feats, env=env,
                                       make_replay=mk, what=f"StaticSchema::{direction.capitalize()}Json threw {out} on {desc}")
                            else:
                                res["inconclusive"].append(f"{ob}: interpreter stopped: {type(out).__name__}: {str(out)[:200]}")
                            continue
                        n, bs = out
                        if n != len(want):
                            viol = z3.BoolVal(True)
                        else:
                            viol = z3.Not(z3.And(*[llsym.bv(x, 8) == llsym.bv(c, 8) for x, c in zip(bs, want)])) if want else z3.BoolVal(False)
                        decide(eng, pc, viol, prop="C03", ob_id=ob, res=res, known=known, features=feats, env=env, make_replay=mk,
                               what=(f"StaticSchema::EncodeJson bytes != canonical bytes on {desc}" if direction == "encode" else
                                     f"StaticSchema::DecodeJson of the canonical bytes != the value on {desc}"))
                except EngineLimit as e:
                    res["inconclusive"].append(f"{desc}|json|inst{ii}|{direction}: engine limit: {e}")
                finish_engine(res, eng)
            steps += m.steps
        res["functions"] = ["generated:fcp.h:StaticSchema::EncodeJson/DecodeJson", f"generated:fcp.h:{top}::FromJson/DecodeJson/Encode/Decode",
                            "decoders.h:*::FromJson/DecodeJson", "buffer.h:Buffer::*", "nlohmann/json.hpp (interpreted)"]
        res["sample"] = {"schema": desc, "entry": "StaticSchema JSON", "ir_steps": steps, "paths": res["paths"], "queries": res["queries"]}
    return res


def c03_kernel_case(args):
    """_to_highest_power_of_two / ToCpp with symbolic N in 1..64: carrier in {8,16,32,64} and >= N (pysym)."""
    tier = args[0]
    add_repo_paths()
    from ..pystubs import MathStub, sym_int_ext
    from ..pysym import sym_max
    import fcp_cpp.generator as G

    res = new_result()
    G.math = MathStub()
    G.int = sym_int_ext
    G.max = sym_max
    n, c = SymInt.fresh("N", 1, 64)
    eng = Engine(timeout_ms=240000)
    try:
        for pi, (kind, out, pc) in enumerate(eng.explore(lambda: G._to_highest_power_of_two(n), [c])):
            ob = f"_to_highest_power_of_two|path{pi}"
            res["obligations"].append(ob)
            if kind == "exc":
                res["inconclusive"].append(f"{ob}: raised {type(out).__name__}: {out}")
                continue
            from ..pysym import z3of
            o = z3of(out)
            good = z3.And(z3.Or(o == 8, o == 16, o == 32, o == 64), o >= n.e)
            r, mdl = eng.check(z3.Not(good), pc=pc)
            if r == "unsat":
                res["discharged"] += 1
            elif r == "sat":
                nv = mdl.eval(n.e, model_completion=True).as_long()
                path = write_replay("C03", {"kind": "cpp_carrier", "N": nv, "property": "C03"})
                okr, text = run_replay(path)
                if okr:
                    res["violations"].append({"replay": path, "ob": ob, "what": f"carrier type for width {nv}: {text[-120:]}"})
                else:
                    res["unconfirmed"].append(f"{ob}: carrier counterexample N={nv} did not replay")
            else:
                res["inconclusive"].append(f"{ob}: solver {r}")
    except EngineLimit as e:
        res["inconclusive"].append(f"_to_highest_power_of_two: engine limit: {e}")
    finish_engine(res, eng)
    res["sample"] = {"kernel": "_to_highest_power_of_two", "N": "symbolic 1..64", "paths": res["paths"]}
    return res


def _dispatch(args):
    if args[0] == "kernel":
        return c03_kernel_case(args[1:])
    if args[0] == "json":
        return c03_json_case(args[1:])
    return c03_case(args[1:])


def run_c03(tier: str) -> int:
    rep = Report("C03", tier)
    fam = c03_family(tier, seed())
    rep.bounds = {
        "schemas": len(fam),
        "family": "verif.checks.cxx_checks.c03_family: every width class (thorough: 1..64) for u/i at an unaligned "
                  "offset, floats, enums of 1..8 bits, nested structs, fixed arrays, Optional, dynamic arrays, str, "
                  "ids out of declaration order, rpc envelope structs of a service (<Payload>Input/Output with the 8+8 bit "
                  "ServiceId/<Svc>MethodId header; ids 2/1 and 200/130)",
        "values": "Encode: all in-range values of each instance (length/presence patterns of verif.values); Decode: all "
                  "buffers of the canonical length for fixed-size shapes, canonical images of all values otherwise",
        "ir": "clang++-14 -std=c++17 -O1 IR of a generated harness TU including the generated fcp.h",
        "json_entry": "StaticSchema::EncodeJson/DecodeJson with real nlohmann::json values (interpreted) for a third of the "
                      "width family and all other shapes (quick) / every schema (thorough): bytes == canonical bytes, "
                      "decoded JSON dumped field by field == the value (signed fields must be signed JSON numbers)",
        "outside": "rpc broker/client/server headers (envelope structs are inside), Endianess::Big, float NaN payloads, Optional of a container through JSON",
    }
    rep.stubs = ["operator new/delete (fresh 0xAA-filled block)", "basic_string::_M_create (libstdc++ capacity rule)",
                 "memcmp/strlen", "__cxa_throw & std::__throw_* end the path as a C++ exception", "llvm.* intrinsics"]
    rep.assumptions = ["the harness TU only builds typed values from a flat argument area and calls the generated "
                       "Encode/Decode (verif/cxx.py)", "g++ -fsyntax-only must accept the generated fcp.h as well",
                       "oracle: refspec canonical bytes"]
    # the JSON entry points (the property's own observation point): every 3rd schema quick, all thorough; no Optional of a
    # container (the static JSON cannot tell null from empty)
    jfam = [s for i, s in enumerate(fam) if (tier == "thorough" or i % 3 == 0 or i >= len(fam) - 12)
            and not any(t[0] == "opt" and t[1][0] in ("dyn", "str", "opt") for _, fs in s.structs for _, _, t in fs)]
    cases = [("kernel", tier)] + [("schema", s, tier) for s in fam] + [("json", s, tier) for s in jfam]
    for r in pmap(_dispatch, cases):
        rep.merge(r)
        if rep.red_enough():
            break
    return rep.finish()
