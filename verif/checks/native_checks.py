"""C06 / C19 (generated C) through llsym on the IR clang-14 produces from the real generator's output."""
from __future__ import annotations

import itertools
import os
import random

import z3

from .. import refspec, llsym
from ..common import Known, Report, pmap, seed, add_repo_paths, write_replay, run_replay
from ..decide import decide, new_result, finish_engine
from ..native import Scratch, generate_c, c_to_ir, load_ir, snake, run as sh
from ..pysym import Engine, EngineLimit
from ..shapes import Schema, enum_width, mk_enum, fixed_bits
from ..layoutref import leaf_list


# ---------------------------------------------------------------- schemas
def flat_schema(fields, enums=None, mid=0x65, period=None, name="Msg", names=None, sigs=None):
    fs = [((names[i] if names else f"f{i}"), i, t) for i, t in enumerate(fields)]
    kv = {"id": mid, "device": "ecu"}
    if period is not None:
        kv["period"] = period
    return Schema(structs=[(name, fs)], enums=dict(enums or {}), top=name, impls=[("can", name, None, kv, sigs or [])])


def c06_family(tier, sd=0):
    E = {"E5": mk_enum("E5", 5), "E1": mk_enum("E1", 1), "E200": mk_enum("E200", 200)}
    fam = []
    widths = [1, 3, 7, 8, 9, 13, 16, 17, 31, 32, 33, 63, 64] if tier == "quick" else list(range(1, 65))
    for n in widths:
        for k in ("u", "i"):
            fam.append(flat_schema([(k, n)]))
    for pad in (1, 3, 8, 13):
        for x in [("u", 5), ("i", 5), ("i", 16), ("u", 32), ("i", 33), ("f32",), ("enum", "E5"), ("enum", "E200")]:
            fam.append(flat_schema([("u", pad), x, ("u", 2)], E))
    # every carrier type beyond frame bit 32, and last signals that straddle a byte boundary
    for x in [("u", 5), ("i", 5), ("u", 8), ("i", 8), ("u", 12), ("i", 12), ("u", 16), ("i", 16), ("u", 20), ("i", 20),
              ("enum", "E5"), ("enum", "E200")]:
        fam.append(flat_schema([("u", 40), x], E))
        fam.append(flat_schema([("u", 33), x, ("u", 2)], E))
    for fs in ([("u", 4), ("u", 8)], [("u", 1), ("f32",), ("u", 16)], [("u", 7), ("u", 2)], [("u", 5), ("i", 12)],
               [("f32",), ("i", 16)], [("u", 24), ("i", 12), ("u", 4)], [("i", 16)] * 4, [("u", 3), ("u", 56)],
               [("u", 27), ("i", 32)], [("u", 2), ("f32",), ("u", 30)]):
        fam.append(flat_schema(fs, E))
    fam.append(flat_schema([("u", 8), ("i", 16), ("f32",), ("enum", "E5")], E))
    fam.append(flat_schema([("u", 3), ("i", 13)]))
    fam.append(flat_schema([("i", 7), ("u", 1), ("i", 24), ("f32",)]))
    fam.append(flat_schema([("f32",), ("f32",)]))
    fam.append(flat_schema([("f64",)]))
    fam.append(flat_schema([("f32",)]))
    fam.append(flat_schema([("u", 1)] * 8))
    fam.append(flat_schema([("enum", "E1"), ("i", 5), ("enum", "E200"), ("u", 50)], E))
    fam.append(flat_schema([("u", 2), ("enum", "ignition"), ("u", 3)], {"ignition": mk_enum("ignition", 200)}))
    # a byte-order option on an 8-bit field is the identity; it must not spread to fields with derived-looking names
    fam.append(flat_schema([("u", 8), ("u", 16), ("i", 16), ("u", 8)], names=["temp", "temp_1", "temp_2", "temp_x"],
                           sigs=[("temp", {"endianness": "big", "endianess": "big"})]))
    fam.append(flat_schema([("i", 64)]))
    fam.append(flat_schema([("u", 32), ("i", 32)]))
    fam.append(flat_schema([("i", 8), ("i", 8), ("i", 16), ("i", 32)]))
    fam.append(flat_schema([("u", 8)], mid=2047))
    fam.append(flat_schema([("u", 8)], mid=0))
    # two messages of one device whose <message>_<field> spellings coincide (Foo.bar_baz / FooBar.baz)
    fam.append(Schema(structs=[("Foo", [("bar_baz", 0, ("u", 8)), ("x", 1, ("u", 8))]),
                               ("FooBar", [("pad", 0, ("u", 16)), ("baz", 1, ("u", 8))])], top="Foo",
                      impls=[("can", "Foo", None, {"id": 0x70, "device": "ecu"}, []),
                             ("can", "FooBar", None, {"id": 0x71, "device": "ecu"}, [])]))
    if tier == "thorough":
        rng = random.Random(sd)
        kinds = [("u", 1), ("u", 4), ("u", 11), ("i", 2), ("i", 6), ("i", 12), ("i", 20), ("u", 24), ("f32",), ("enum", "E5")]
        for _ in range(150):
            fs, bits = [], 0
            while len(fs) < 8:
                t = rng.choice(kinds)
                b = fixed_bits(Schema(structs=[], enums=E), t)
                if bits + b > 64:
                    break
                fs.append(t)
                bits += b
            if fs:
                fam.append(flat_schema(fs, E, mid=rng.randrange(0, 2048)))
    seen, out = set(), []
    for s in fam:
        if s.text() not in seen:
            seen.add(s.text())
            out.append(s)
    return out


HARNESS = """#include "ecu_can.h"
void h_encode(const CanMsg{P} *msg, CanFrame *out) {{ *out = can_encode_msg_{s}(msg); }}
void h_decode(const CanFrame *f, CanMsg{P} *out) {{ *out = can_decode_msg_{s}(f); }}
"""


def carrier_bits(t, schema):
    k = t[0]
    if k in ("u", "i"):
        n = t[1]
        return 8 if n <= 8 else 16 if n <= 16 else 32 if n <= 32 else 64
    if k == "f32":
        return 32
    if k == "f64":
        return 64
    if k == "enum":
        return 32
    raise ValueError(t)


def build_c(schema: Schema, d: str, extra_harness=""):
    """generate + compile to IR. Returns (fcp, mod) or raises CompileError."""
    from ..prime import prime, decoy_text
    prime(decoy_text(schema), ("layout", "c"))
    fcp, names = generate_c(schema.text(), d)
    with open(os.path.join(d, "harness.c"), "w") as f:
        f.write(extra_harness)
    srcs = [n for n in names if n.endswith(".c")] + ["harness.c"]
    ok, lls = c_to_ir(d, srcs, "-O0")
    if not ok:
        raise CompileError(lls)
    mod = load_ir(lls)
    # member names of the generated message structs, from the generated header (order = signal order)
    import re
    mod.member_names = {}
    for n in names:
        if n.endswith("_can.h"):
            htxt = open(os.path.join(d, n)).read()
            for body, nm in re.findall(r"typedef struct \{([^}]*)\} CanMsg(\w+);", htxt):
                mod.member_names[nm] = re.findall(r"\b(\w+)(?:\[\d+\])?;", body)
    return fcp, mod


class CompileError(Exception):
    pass


def _dt(schema):
    from ..prime import decoy_text
    return decoy_text(schema)


def _frame_parts(m, p):
    b = [m.mem.get(p + i) for i in range(10)]
    if any(x is None for x in b):
        raise EngineLimit("frame bytes not written")
    w = z3.Concat(*[llsym.bv(x, 8) for x in reversed(b)])
    return z3.Extract(10, 0, w), z3.Extract(14, 11, w), z3.Extract(79, 16, w), w


def c06_case(args):
    schema, tier = args
    add_repo_paths()
    res = new_result()
    known = Known("C06")
    top = schema.top
    fields = schema.struct(top)
    desc = schema.describe() + f" id={schema.impls[0][3]['id']}"
    bits = fixed_bits(schema, ("struct", top))
    feats = {"desc": desc, "kinds": [t[0] for _, _, t in fields], "widths": [t[1] if t[0] in "ui" else None for _, _, t in fields],
             "offsets": [], "has_float": any(t[0] in ("f32", "f64") for _, _, t in fields)}
    off = 0
    for _, _, t in sorted(fields, key=lambda f: f[1]):
        feats["offsets"].append(off)
        off += fixed_bits(schema, t)
    mid = schema.impls[0][3]["id"]
    P = top
    s = snake(top)
    with Scratch() as d:
        try:
            fcp, mod = build_c(schema, d, HARNESS.format(P=P, s=s))
        except CompileError as e:
            ob = f"{desc}|compiles"
            res["obligations"].append(ob)
            path = write_replay("C06", {"kind": "c_compile", "schema_text": schema.text(), "property": "C06"})
            ok, text = run_replay(path)
            if ok:
                res["violations"].append({"replay": path, "ob": ob, "what": f"generated C does not compile for {desc}: {str(e)[-200:]}"})
            else:
                res["unconfirmed"].append(f"{ob}: compile failure did not replay: {str(e)[-200:]}")
            return res
        except Exception as e:
            ob = f"{desc}|generates"
            res["obligations"].append(ob)
            path = write_replay("C06", {"kind": "c_compile", "schema_text": schema.text(), "property": "C06"})
            ok, text = run_replay(path)
            if ok:
                res["violations"].append({"replay": path, "ob": ob, "what": f"C generation failed for {desc}: {type(e).__name__}: {e}"})
            else:
                res["unconfirmed"].append(f"{ob}: generation failure did not replay: {e}")
            return res
        res["obligations"].append(f"{desc}|compiles")
        res["discharged"] += 1
        msg_ty = mod.named[f"%struct.CanMsg{P}"]
        rty = llsym.resolve(mod, msg_ty)
        # ---- encode: symbolic in-range field values
        vals, assume, zvars = [], [], {}
        narrow = [(fn, t, llsym.resolve(mod, ety).n) for (fn, fid, t), ety in zip(fields, rty.es)
                  if t[0] in ("u", "i") and llsym.resolve(mod, ety).n < t[1]]
        if narrow:
            ob = f"{desc}|carrier"
            res["obligations"].append(ob)
            fn, t, K = narrow[0]
            path = write_replay("C06", {"kind": "c_carrier", "schema_text": schema.text(), "top": top, "field": fn,
                                        "bits": t[1], "property": "C06"})
            ok, text = run_replay(path)
            if ok:
                res["violations"].append({"replay": path, "ob": ob, "what": f"struct member {fn} of CanMsg{P} has {K} bits but the field has {t[1]} on {desc}"})
            else:
                res["unconfirmed"].append(f"{ob}: narrow carrier did not replay")
            return res
        for (fn, fid, t), ety in zip(fields, rty.es):
            ety = llsym.resolve(mod, ety)
            K = ety.n
            v = z3.BitVec(fn, K)
            zvars[fn] = (v, t, K)
            if t[0] == "u" and t[1] < K:
                assume.append(z3.ULT(v, 1 << t[1]))
            elif t[0] == "i" and t[1] < K:
                assume.append(z3.And(v >= -(1 << (t[1] - 1)), v < (1 << (t[1] - 1))))
            elif t[0] == "enum":
                assume.append(z3.ULE(v, schema.enum_max(t[1])))
            elif t[0] in ("f32", "f64"):
                assume.append(z3.Not(z3.fpIsNaN(z3.fpBVToFP(v, z3.Float32() if K == 32 else z3.Float64()))))
            vals.append(llsym.FP(v, K) if ety.k == "fp" else v)
        value = {fn: zvars[fn][0] for fn, _, _ in fields}
        exp_word = refspec.canon_word64(schema, ("struct", top), value)
        eng = Engine(timeout_ms=240000 if tier == "quick" else 600000, max_paths=500)
        m = llsym.Machine(mod)
        msgp = m.alloc(llsym.sizeof(mod, msg_ty))
        outp = m.alloc(16)
        snap = dict(m.mem)

        def enc_body():
            m.mem = dict(snap)
            m.ub = []
            m.store(msgp, msg_ty, vals)
            llsym.run(m, "@h_encode", [msgp, outp])
            return _frame_parts(m, outp), list(m.ub)

        def mk_enc(mdl):
            fv = {}
            for fn, (v, t, K) in zvars.items():
                x = mdl.eval(v, model_completion=True).as_long()
                fv[fn] = x
            return {"kind": "c_encode", "schema_text": schema.text(), "fields": fv, "top": top, "decoy_text": _dt(schema),
                    "carriers": {fn: K for fn, (v, t, K) in zvars.items()},
                    "kinds": {fn: t[0] for fn, (v, t, K) in zvars.items()},
                    "expected": {"id": mid, "dlc": (bits + 7) // 8,
                                 "data": mdl.eval(exp_word, model_completion=True).as_long()}}

        env = {"v": {fn: v for fn, (v, t, K) in zvars.items()}, "offsets": feats["offsets"]}
        try:
            for pi, (kind, out, pc) in enumerate(eng.explore(enc_body, assume)):
                ob = f"{desc}|encode|path{pi}"
                if kind == "exc":
                    res["inconclusive"].append(f"{ob}: interpreter stopped: {type(out).__name__}: {str(out)[:160]}")
                    continue
                (idf, dlc, data, _), ub = out
                viol = z3.Not(z3.And(idf == mid, dlc == (bits + 7) // 8, data == exp_word))
                decide(eng, pc, viol, prop="C06", ob_id=ob, res=res, known=known, features=feats, env=env,
                       make_replay=mk_enc, what=f"can_encode_msg frame != (id {mid}, dlc {(bits + 7) // 8}, layout packing) on {desc}")
                _ub_report(res, eng, pc, ub, ob)
        except EngineLimit as e:
            res["inconclusive"].append(f"{desc}|encode: engine limit: {e}")
        finish_engine(res, eng)
        # ---- decode: arbitrary frame
        eng = Engine(timeout_ms=240000 if tier == "quick" else 600000, max_paths=500)
        m = llsym.Machine(mod)
        fp_ = m.alloc(16)
        outp = m.alloc(llsym.sizeof(mod, msg_ty))
        fb = [z3.BitVec(f"frame{i}", 8) for i in range(10)]
        snap = dict(m.mem)
        data = z3.Concat(*reversed(fb[2:]))
        leaves = refspec.decanon_leaves(schema, ("struct", top), data, 64)
        offs, _ = llsym.layout(mod, rty)

        def dec_body():
            m.mem = dict(snap)
            m.ub = []
            for i, b in enumerate(fb):
                m.mem[fp_ + i] = b
            llsym.run(m, "@h_decode", [fp_, outp])
            got = m.load(outp, msg_ty)
            return got, list(m.ub)

        def mk_dec(mdl):
            return {"kind": "c_decode", "schema_text": schema.text(), "top": top, "decoy_text": _dt(schema),
                    "frame": [mdl.eval(b, model_completion=True).as_long() for b in fb],
                    "fields": [fn for fn, _, _ in fields],
                    "kinds": {fn: t[0] for fn, _, t in fields},
                    "widths": {fn: (t[1] if t[0] in "ui" else enum_width(schema.enum_max(t[1])) if t[0] == "enum" else None)
                               for fn, _, t in fields},
                    "offsets": {fn: o for (fn, _, _), o in zip(sorted(fields, key=lambda f: f[1]), feats["offsets"])}}

        leaf_by_name = {p_: (k_, w_, raw) for p_, k_, w_, raw in leaves}
        nonnan = []
        for fn, _, t in fields:
            if t[0] in ("f32", "f64"):
                raw = leaf_by_name[fn][2]
                nonnan.append(z3.Not(z3.fpIsNaN(z3.fpBVToFP(raw, z3.Float32() if t[0] == "f32" else z3.Float64()))))
        try:
            for pi, (kind, out, pc) in enumerate(eng.explore(dec_body, nonnan)):
                ob = f"{desc}|decode|path{pi}"
                if kind == "exc":
                    res["inconclusive"].append(f"{ob}: interpreter stopped: {type(out).__name__}: {str(out)[:160]}")
                    continue
                got, ub = out
                cs = []
                for (fn, fid, t), g, ety in zip(fields, got, rty.es):
                    K = llsym.resolve(mod, ety).n
                    k_, w_, raw = leaf_by_name[fn]
                    if t[0] in ("f32", "f64"):
                        srt = z3.Float32() if K == 32 else z3.Float64()
                        cs.append(z3.fpEQ(z3.fpBVToFP(llsym.bv(llsym.fp_bits(g), K), srt), z3.fpBVToFP(raw, srt)))
                    else:
                        cs.append(llsym.bv(g, K) == refspec.value_of_leaf(k_, w_, raw, K))
                decide(eng, pc, z3.Not(z3.And(*cs)), prop="C06", ob_id=ob, res=res, known=known, features=feats,
                       env={"frame": fb, "offsets": feats["offsets"]}, make_replay=mk_dec,
                       what=f"can_decode_msg fields != layout extraction on {desc}")
                _ub_report(res, eng, pc, ub, ob)
        except EngineLimit as e:
            res["inconclusive"].append(f"{desc}|decode: engine limit: {e}")
        finish_engine(res, eng)
        res["functions"] = [f"generated:{s}_can.c:can_encode_msg_{s}", f"generated:{s}_can.c:can_decode_msg_{s}",
                            "templates/can_signal_parser.c:*"]
        res["sample"] = {"schema": desc, "bits": bits, "ir_steps": m.steps, "paths": res["paths"], "queries": res["queries"]}
    return res


def _ub_report(res, eng, pc, ub, ob):
    """Undefined behaviour met on this path (conditions): reported separately, as inconclusive-with-reason notes."""
    for u in ub:
        if isinstance(u, tuple):
            r, m = eng.check(u[1], pc=pc)
            if r == "sat":
                res.setdefault("ub", []).append(f"{ob}: possible UB {u[0]}")
        else:
            res.setdefault("ub", []).append(f"{ob}: UB {u}")


DEVICE_NAMES = ["FrontEcu", "ECU", "dash_2", "x"]


def c06_device_name_case(args):
    """'The generated C compiles' for device names of any legal spelling: every generated .c is compiled as emitted."""
    devname, tier = args
    add_repo_paths()
    res = new_result()
    s = flat_schema([("u", 8), ("i", 12)])
    s.impls = [("can", "Msg", None, {"id": 0x65, "device": devname}, [])]
    ob = f"device '{devname}'|every generated .c compiles"
    res["obligations"].append(ob)
    path = write_replay("C06", {"kind": "c_compile_sources", "schema_text": s.text(), "property": "C06", "device": devname})
    ok, text = run_replay(path)
    if ok:
        res["violations"].append({"replay": path, "ob": ob, "what": f"generated C for device {devname!r} does not compile :: {text[-300:]}"})
    elif ok is None:
        res["inconclusive"].append(f"{ob}: replay harness failed: {text[-200:]}")
    else:
        res["discharged"] += 1
    res["sample"] = {"device": devname}
    return res


def _c06_dispatch(args):
    return c06_device_name_case(args[1:]) if args[0] == "devname" else c06_case(args[1:])


def run_c06(tier: str) -> int:
    rep = Report("C06", tier)
    fam = c06_family(tier, seed())
    rep.bounds = {
        "schemas": len(fam),
        "family": "flat CAN structs: every width class x signedness alone; padded pairs at offsets 1,3,8,13; floats at "
                  "aligned/unaligned offsets; enums of 1/3/8 bits; 1..8 signals; ids 0 and 2047 (+ seeded random "
                  "mixes in thorough); device names FrontEcu / ECU / dash_2 / x (compile only)",
        "values": "encode: all in-range field values (floats: all non-NaN patterns); decode: all 2^80 frames",
        "ir": "clang-14 -O0 IR of the generated <device>_can.c, can_signal_parser.c and a 2-line harness TU",
        "outside": "muxed and big-endian C messages, scale/offset other than the 1.0/0.0 the generator emits, NaN payloads, "
                   "the sign of zero on decode (the runtime adds 0.0)",
    }
    rep.stubs = ["llvm.memcpy/memset/bswap intrinsics"]
    rep.assumptions = [
        "clang-14's lowering to IR is trusted; llsym is validated by replaying every counterexample natively (clang and gcc)",
        "x86-64 SysV struct layout and bit-field allocation (id:11, dlc:4 in the first two bytes of CanFrame)",
        "oracle: refspec layout packing of the struct (same bits as the canonical wire format, as one 64-bit word)"]
    ubs = []
    for r in pmap(_c06_dispatch, [("devname", n, tier) for n in DEVICE_NAMES] + [("schema", s, tier) for s in fam]):
        rep.merge(r)
        ubs += r.get("ub", [])
        if rep.red_enough():
            break
    rep.extra["undefined_behaviour_notes"] = sorted(set(ubs))[:20]
    return rep.finish()


# ---------------------------------------------------------------- C19: scheduler
PERIODS = [-1, 1, 2, 15, 20, 1000, 2 ** 31 - 1]


def sched_schema(periods):
    structs, impls = [], []
    shapes = [[("u", 8), ("i", 16)], [("u", 3), ("i", 13), ("f32",)], [("u", 1)], [("i", 64)]]
    for i, p in enumerate(periods):
        name = f"M{i}"
        structs.append((name, [(f"f{j}", j, t) for j, t in enumerate(shapes[i % len(shapes)])]))
        kv = {"id": 16 + i, "device": "ecu"}
        if p is not None:
            kv["period"] = p
        impls.append(("can", name, None, kv, []))
    return Schema(structs=structs, top="M0", impls=impls)


def c19_devices(tier):
    devs = [[15], [-1], [None], [1, 20], [15, -1, 2], [2 ** 31 - 1, 1000], [20, 20, 1, None]]
    if tier == "thorough":
        devs += [[2], [1000], [1, 1, 1, 1], [15, 2, -1, 2 ** 31 - 1], [None, 15], [2, 20, 1000]]
    return devs


SCHED_HARNESS = """#include "ecu_can.h"
{encs}
"""


def c19_case(args):
    periods, k, tier = args
    add_repo_paths()
    res = new_result()
    known = Known("C19")
    schema = sched_schema(periods)
    eff = [(-1 if p is None else p) for p in periods]
    n = len(periods)
    desc = f"device with periods {periods}"
    feats = {"desc": desc, "periods": eff}
    encs = "\n".join(f"void h_enc{i}(const CanDeviceEcu *d, CanFrame *out) {{ *out = can_encode_msg_m{i}(&d->m{i}); }}"
                     for i in range(n))
    with Scratch() as d:
        try:
            fcp, mod = build_c(schema, d, SCHED_HARNESS.format(encs=encs))
        except Exception as e:
            res["inconclusive"].append(f"{desc}: generated C does not build: {type(e).__name__}: {str(e)[-200:]}")
            return res
        fn = "@can_send_ecu_msgs_scheduled"
        I32 = llsym.T("int", n=32)
        dev_ty = mod.named["%struct.CanDeviceEcu"]
        g_call = fn + ".last_call_t"
        g_send = fn + ".last_send_t"
        if g_call not in mod.globals or g_send not in mod.globals:
            res["inconclusive"].append(f"{desc}: scheduler statics not found in the IR: {[g for g in mod.globals if fn in g]}")
            return res

        def machine():
            m = llsym.Machine(mod)
            sent = []

            def cb(mach, framep):
                sent.append([mach.readbyte(framep + i) for i in range(10)])
            m.natives["@__send"] = cb
            m.gaddr["@__send"] = 0xF00
            m.fn_by_addr[0xF00] = "@__send"
            dev = m.alloc(llsym.sizeof(mod, dev_ty))
            # arbitrary device contents: every byte symbolic
            devbytes = [z3.BitVec(f"dev{i}", 8) for i in range(llsym.sizeof(mod, dev_ty))]
            for i, b in enumerate(devbytes):
                m.mem[dev + i] = b
            return m, sent, dev

        def ref_step(lc, ls, t):
            """reference automaton: (sends[i] as z3 Bool, new last_call, new last_send[])"""
            active = t != lc
            sends, nls = [], []
            for i in range(n):
                if eff[i] == -1:
                    s_ = z3.BoolVal(False)
                else:
                    s_ = z3.And(active, z3.UGE(t - ls[i], z3.BitVecVal(eff[i] & 0xFFFFFFFF, 32)))
                sends.append(s_)
                nls.append(z3.If(s_, t, ls[i]))
            return sends, z3.If(active, t, lc), nls

        # expected frames: direct encode of the (symbolic) device contents
        m0, _, dev0 = machine()
        outp = m0.alloc(16)
        engx = Engine(timeout_ms=240000)
        exp_frames = []
        try:
            for i in range(n):
                paths = list(engx.explore(lambda i=i: (llsym.run(m0, f"@h_enc{i}", [dev0, outp]),
                                                      [m0.readbyte(outp + j) for j in range(10)])[1], []))
                if len(paths) != 1 or paths[0][0] != "ret":
                    raise EngineLimit(f"encode of message {i} is not a single path: {[(k_, str(o)[:80]) for k_, o, _ in paths]}")
                exp_frames.append(paths[0][1])
        except EngineLimit as e:
            res["inconclusive"].append(f"{desc}: reference encode: {e}")
            return res
        finish_engine(res, engx)

        def frames_equal(a, b):
            return z3.And(*[llsym.bv(x, 8) == llsym.bv(y, 8) for x, y in zip(a, b)])

        def check_run(mode):
            """mode 'step': one call from an arbitrary state; 'bmc': k calls from the C initial state."""
            eng = Engine(timeout_ms=240000 if tier == "quick" else 600000, max_paths=20000)
            m, sent, dev = machine()
            # same device bytes as the reference encode (variables are shared by name)
            snap = dict(m.mem)
            if mode == "step":
                lc0 = z3.BitVec("last_call", 32)
                ls0 = [z3.BitVec(f"last_send{i}", 32) for i in range(n)]
                ts = [z3.BitVec("t", 32)]
            else:
                lc0 = z3.BitVecVal(0, 32)
                ls0 = [z3.BitVecVal(0, 32) for _ in range(n)]
                ts = [z3.BitVec(f"t{j}", 32) for j in range(k)]

            def body():
                m.mem = dict(snap)
                m.store(m.gaddr[g_call], I32, lc0 if mode == "step" else 0)
                m.store(m.gaddr[g_send], llsym.T("arr", n=n, e=I32), [x if mode == "step" else 0 for x in ls0])
                trace = []
                for t in ts:
                    sent.clear()
                    llsym.run(m, fn, [dev, t, 0xF00])
                    trace.append(list(sent))
                post_lc = m.load(m.gaddr[g_call], I32)
                post_ls = m.load(m.gaddr[g_send], llsym.T("arr", n=n, e=I32))
                return trace, post_lc, post_ls

            def mk(mdl):
                ev = lambda x: mdl.eval(x, model_completion=True).as_long() if not isinstance(x, int) else x
                return {"kind": "c_sched", "schema_text": schema.text(), "periods": eff, "mode": mode, "decoy_text": _dt(schema),
                        "last_call": ev(lc0), "last_send": [ev(x) for x in ls0], "times": [ev(t) for t in ts],
                        "dev_bytes": [ev(z3.BitVec(f"dev{i}", 8)) for i in range(llsym.sizeof(mod, dev_ty))]}

            try:
                for pi, (kind, out, pc) in enumerate(eng.explore(body, [])):
                    ob = f"{desc}|{mode}|path{pi}"
                    if kind == "exc":
                        res["inconclusive"].append(f"{ob}: interpreter stopped: {type(out).__name__}: {str(out)[:160]}")
                        continue
                    trace, post_lc, post_ls = out
                    lc, ls = lc0, list(ls0)
                    cs = []
                    for t, frames in zip(ts, trace):
                        sends, lc, ls = ref_step(lc, ls, t)
                        # on this path the set of sent messages is concrete: frames in message order
                        fi = 0
                        for i in range(n):
                            if fi < len(frames) and z3.is_true(z3.simplify(z3.BoolVal(True))) and _is_frame_of(frames[fi], schema, i):
                                cs.append(sends[i])
                                cs.append(frames_equal(frames[fi], exp_frames[i]))
                                fi += 1
                            else:
                                cs.append(z3.Not(sends[i]))
                        if fi != len(frames):
                            cs.append(z3.BoolVal(False))
                    cs.append(llsym.bv(post_lc, 32) == lc)
                    for a, b in zip(post_ls, ls):
                        cs.append(llsym.bv(a, 32) == b)
                    decide(eng, pc, z3.Not(z3.And(*cs)), prop="C19", ob_id=ob, res=res, known=known, features=feats,
                           env={}, make_replay=mk,
                           what=f"scheduler differs from the reference automaton ({mode}) on {desc}")
            except EngineLimit as e:
                res["inconclusive"].append(f"{desc}|{mode}: engine limit: {e}")
            finish_engine(res, eng)
            return m.steps

        steps = check_run("step")
        steps += check_run("bmc")
        res["functions"] = ["generated:ecu_can.c:can_send_ecu_msgs_scheduled"] + [f"generated:ecu_can.c:can_encode_msg_m{i}" for i in range(n)]
        res["sample"] = {"periods": eff, "k": k, "ir_steps": steps, "paths": res["paths"], "queries": res["queries"]}
    return res


def _is_frame_of(frame, schema, i):
    """The id field of a recorded frame is concrete (it comes from a constant initialiser): match it to message i."""
    lo, hi = frame[0], frame[1]
    if not isinstance(lo, int) or not isinstance(hi, int):
        lo = z3.simplify(llsym.bv(lo, 8))
        hi = z3.simplify(llsym.bv(hi, 8))
        if not (z3.is_bv_value(lo) and z3.is_bv_value(hi)):
            raise EngineLimit("frame id is not concrete")
        lo, hi = lo.as_long(), hi.as_long()
    fid = (lo | (hi << 8)) & 0x7FF
    return fid == schema.impls[i][3]["id"]


def run_c19(tier: str) -> int:
    rep = Report("C19", tier)
    k = 3 if tier == "quick" else 6
    devs = c19_devices(tier)
    rep.bounds = {
        "devices": devs,
        "inductive_step": "one call from an arbitrary symbolic static state (last_call_t, last_send_t[]) with a symbolic "
                          "32-bit time and arbitrary device bytes: frames sent, their order and contents, and the "
                          "post-state equal the reference automaton's (covers call histories of any length)",
        "bmc": f"{k} calls from the C initial state (all zero) with arbitrary 32-bit timestamps (wrap-around included)",
        "outside": "devices with more than 4 messages, other period values",
    }
    rep.stubs = ["send callback (records the 10 frame bytes)", "llvm.memcpy/memset intrinsics"]
    rep.assumptions = [
        "reference automaton (10 lines, 32-bit wrapping unsigned arithmetic) written from the property text",
        "every transmitted frame is compared with can_encode_msg_<m> of the same device bytes (second symbolic run)",
        "clang-14 -O0 IR; counterexamples replayed natively (clang and gcc) with a generated main()"]
    # BMC depth by device size: the number of send patterns per call grows with the number of messages
    depth = lambda p: k if len(p) == 1 else (min(k, 4) if len(p) == 2 else 3)
    rep.bounds["bmc_depth_by_messages"] = {"1": k, "2": min(k, 4), "3-4": 3}
    for r in pmap(c19_case, [(p, depth(p), tier) for p in devs]):
        rep.merge(r)
        if rep.red_enough():
            break
    return rep.finish()
