"""C12: reflection() is faithful to the tree and round-trips through the built-in reflection schema."""
from __future__ import annotations

import z3

from .. import refspec
from ..common import Known, Report, pmap, add_repo_paths
from ..decide import decide, new_result, finish_engine
from ..fromfcp import parse, schema_from_fcp
from ..pysym import Engine, EngineLimit, SymInt, SymFloat, SymStr, Coverage, concretize, W
from ..values import to_json
from . import serde_checks

V3 = 'version: "3"\n'
TEMPLATES = {
    "plain": V3 + 'enum Mode { Off = 0, On = 1, Err = -5, }\n'
                  'struct Inner { p @0: u5, q @1: Mode, }\n'
                  'struct Msg {\n    a @0: u8 | unit("C"),\n    b @1: f32 | range(0.5, 10.25),\n'
                  '    c @2: Optional[[Inner, 2]] | unit("m/s") range(-1.5, 2.5),\n    d @3: [str],\n    e @7: Inner,\n    g @8: [Optional[u16], 3],\n    h @9: [[[i4, 2]], 2],\n    i @10: [[u8, 4], 3],\n}\n',
    "bindings": V3 + 'struct A { x @0: u16, y @1: i7, }\nstruct B { z @0: f64, }\n'
                     'impl can for A {\n    id: 10,\n    device: "ecu",\n    signal x {\n        mux_count: 4,\n'
                     '        mux_signal: "y",\n    },\n    signal y {\n        endianess: "big",\n    },\n}\n'
                     'impl can for B as Bee {\n    id: 11,\n    bus: "b1",\n    period: 20,\n    mask: 18446744073709551615,\n'
                     '    uid: 9007199254740993,\n    gain: 0.10000000000000002,\n    offset: -40,\n'
                     '    signal z {\n        scale: 1.0000000000000002,\n        key: 123456789012345678,\n    },\n}\n'
                     # extension fields and signal blocks interleaved (the grammar allows any order)
                     'impl can for A as Mixed {\n    id: 17,\n    signal x {\n        mux_count: 2,\n    },\n    bus: "aux",\n'
                     '    signal y {\n        endianess: "little",\n    },\n    period: 5,\n}\n',
    "services": V3 + 'struct Req { a @0: u8, }\nstruct Rsp { b @0: [u8, 3], }\n'
                     'service Svc @3 {\n    method get(Req) @0 returns Rsp,\n    method put(Rsp) @1 returns Req,\n}\n'
                     'service Other @4 {\n    method m(Req) @0 returns Req,\n}\n'
                     'device Dev {\n    services: [Svc],\n}\n',
    "minimal": V3 + 'struct S { a @0: u1, }\n',
}


# what the source of a template declares for its (non-default) bindings, written by hand next to the template text:
# (name, protocol, struct, {extension field: str(value)}, [(signal block, {field: str(value)})])
DECLARED_IN_SOURCE = {
    "bindings": [
        ("A", "can", "A", {"id": "10", "device": "ecu"},
         [("x", {"mux_count": "4", "mux_signal": "y"}), ("y", {"endianess": "big"})]),
        ("Bee", "can", "B", {"id": "11", "bus": "b1", "period": "20", "mask": "18446744073709551615",
                             "uid": "9007199254740993", "gain": "0.10000000000000002", "offset": "-40"},
         [("z", {"scale": "1.0000000000000002", "key": "123456789012345678"})]),
        ("Mixed", "can", "A", {"id": "17", "bus": "aux", "period": "5"},
         [("x", {"mux_count": "2"}), ("y", {"endianess": "little"})]),
    ],
}


def source_mismatch(tname, fcp):
    """None, or how the parsed tree differs from what the template's source declares for its bindings."""
    exp = DECLARED_IN_SOURCE.get(tname)
    if exp is None:
        return None
    got = [(i.name, i.protocol, i.type, {k: str(v) for k, v in i.fields.items()},
            [(g.name, {k: str(v) for k, v in g.fields.items()}) for g in i.signals])
           for i in fcp.impls if i.protocol != "default"]
    if got != exp:
        for a, b in zip(got, exp):
            if a != b:
                return f"binding {b[0]}: source declares fields {b[3]} signals {b[4]}, tree has fields {a[3]} signals {a[4]}"
        return f"source declares {len(exp)} bindings, tree has {len(got)}"
    return None


COLLIDING = V3 + "".join(f"struct {n} {{ code @3: u16, other @1: i5, }}\n" for n in
                         ("MetaData", "Type", "StructField", "Struct", "Enumeration", "Enum", "DictField", "SignalBlock",
                          "Impl", "Method", "Service", "Fcp"))


class Patcher:
    """Replaces the leaves of a parsed tree by symbolic (or, for replay, concrete) values."""

    def __init__(self, asg=None, strlen=(2, 0, 3, 1)):
        self.asg = asg          # None -> symbolic
        self.assume = []
        self.vars = {}
        self.n = 0
        self.strlen = strlen

    def s(self, key, orig):
        if self.asg is not None:
            return self.asg.get(key, orig)
        n = self.strlen[self.n % len(self.strlen)]
        self.n += 1
        cs = []
        for i in range(n):
            v, c = SymInt.fresh(f"{key}[{i}]", 0, 127)
            self.assume.append(c)
            cs.append(v)
        out = SymStr(cs)
        self.vars[key] = out
        return out

    def i(self, key, lo, hi, orig):
        if self.asg is not None:
            return self.asg.get(key, orig)
        v, c = SymInt.fresh(key, lo, hi)
        self.assume.append(c)
        self.vars[key] = v
        return v

    def f(self, key, orig):
        if self.asg is not None:
            v = self.asg.get(key)
            if v is None:
                return orig
            import struct
            return struct.unpack("<d", int(v[1]).to_bytes(8, "little"))[0]
        b = z3.BitVec(key, 64)
        v = SymFloat(b, 64)
        self.vars[key] = v
        return v

    def meta(self, key, m):
        if m is None:
            return
        for a in ("line", "end_line", "column", "end_column", "start_pos", "end_pos"):
            setattr(m, a, self.i(f"{key}.meta.{a}", 0, 2 ** 31 - 1, getattr(m, a)))
        m.filename = self.s(f"{key}.meta.filename", m.filename)

    def patch(self, fcp):
        def ptype(key, t):
            if hasattr(t, "size") and hasattr(t, "underlying_type"):
                t.size = self.i(key + ".size", 0, 2 ** 32 - 1, t.size)
            if hasattr(t, "underlying_type"):
                ptype(key + "<", t.underlying_type)
            elif type(t).__name__ in ("StructType", "EnumType"):
                t.name = self.s(key + ".tname", t.name)

        for si, s in enumerate(fcp.structs):
            k = f"struct{si}"
            s.name = self.s(k + ".name", s.name)
            self.meta(k, s.meta)
            for fi, f in enumerate(s.fields):
                fk = f"{k}.field{fi}"
                f.name = self.s(fk + ".name", f.name)
                f.field_id = self.i(fk + ".id", 0, 2 ** 32 - 1, f.field_id)
                if f.unit is not None:
                    f.unit = self.s(fk + ".unit", f.unit)
                if f.min_value is not None:
                    f.min_value = self.f(fk + ".min", f.min_value)
                if f.max_value is not None:
                    f.max_value = self.f(fk + ".max", f.max_value)
                ptype(fk + ".type", f.type)
                self.meta(fk, f.meta)
        for ei, e in enumerate(fcp.enums):
            k = f"enum{ei}"
            e.name = self.s(k + ".name", e.name)
            self.meta(k, e.meta)
            for vi, v in enumerate(e.enumeration):
                v.name = self.s(f"{k}.v{vi}.name", v.name)
                v.value = self.i(f"{k}.v{vi}.value", -2 ** 63, 2 ** 63 - 1, v.value)
                self.meta(f"{k}.v{vi}", v.meta)
        for ii, im in enumerate(fcp.impls):
            k = f"impl{ii}"
            im.name = self.s(k + ".name", im.name)
            im.protocol = self.s(k + ".protocol", im.protocol)
            im.type = self.s(k + ".type", im.type)
            self.meta(k, im.meta)
            for gi, sg in enumerate(im.signals):
                sg.name = self.s(f"{k}.sig{gi}.name", sg.name)
                self.meta(f"{k}.sig{gi}", sg.meta)
        for vi, sv in enumerate(fcp.services):
            k = f"svc{vi}"
            sv.name = self.s(k + ".name", sv.name)
            sv.id = self.i(k + ".id", 0, 2 ** 32 - 1, sv.id)
            self.meta(k, sv.meta)
            for mi, m in enumerate(sv.methods):
                mk = f"{k}.m{mi}"
                m.name = self.s(mk + ".name", m.name)
                m.id = self.i(mk + ".id", 0, 2 ** 32 - 1, m.id)
                m.input = self.s(mk + ".in", m.input)
                m.output = self.s(mk + ".out", m.output)
                self.meta(mk, m.meta)
        return fcp


# ---- reference description, written from the property text (and the reflection schema's field names)
def _meta(m):
    if m is None:
        return None
    return {"line": m.line, "end_line": m.end_line, "column": m.column, "end_column": m.end_column,
            "start_pos": m.start_pos, "end_pos": m.end_pos, "filename": m.filename}


def _chain(t):
    n = type(t).__name__
    if n == "ArrayType":
        return [{"name": "Array", "size": t.size, "type": "Array"}] + _chain(t.underlying_type)
    if n == "DynamicArrayType":
        return [{"name": "DynamicArray", "size": 1, "type": "DynamicArray"}] + _chain(t.underlying_type)
    if n == "OptionalType":
        return [{"name": "Optional", "size": 1, "type": "Optional"}] + _chain(t.underlying_type)
    if n == "StringType":
        return [{"name": "str", "size": 1, "type": "str"}]
    if n == "StructType":
        return [{"name": t.name, "size": 1, "type": "Struct"}]
    if n == "EnumType":
        return [{"name": t.name, "size": 1, "type": "Enum"}]
    kinds = {"UnsignedType": "unsigned", "SignedType": "signed", "FloatType": "float", "DoubleType": "double"}
    return [{"name": t.name, "size": 1, "type": kinds[n]}]


def _dict_fields(d):
    return [{"name": k, "value": str(v)} for k, v in d.items()]


def after_rpc_mismatch(tname, parse_fn=None):
    """History on one FcpV2 object, all of it repository code: reflection(), then the in-place extension fcp_cpp's generator
    makes (generate_rpc appends the rpc envelope structs, bindings and id enums to the tree), then reflection() again.
    The second record must list every struct, enum and binding the schema object now holds (C12: 'lists every struct ...
    of the schema').  Returns a description of the mismatch or ''.  Concrete (no symbolic leaves): the subject is state
    kept across calls, not data."""
    fcp = (parse_fn or parse)(TEMPLATES[tname])
    if not fcp.services:
        return ""
    n0 = len(fcp.structs)
    fcp.reflection()
    try:
        from fcp_cpp.rpc import generate_rpc
        generate_rpc(fcp)
    except Exception:
        return ""            # what the C++ generator accepts is not C12's business
    if len(fcp.structs) == n0:
        return ""
    rec = fcp.reflection()
    for key, nodes in (("structs", fcp.structs), ("enums", fcp.enums), ("impls", fcp.impls)):
        have, want = [x["name"] for x in rec[key]], [str(n.name) for n in nodes]
        if have != want:
            return (f"after reflection() + fcp_cpp.rpc.generate_rpc(fcp) on the same object, reflection() lists {key} {have} "
                    f"but the schema holds {want}")
    return ""


def declared_of(fcp):
    """The extension fields as declared in the source: taken right after parsing, before anything else touches the tree."""
    return [(dict(i.fields), [dict(g.fields) for g in i.signals]) for i in fcp.impls]


def same_object_history(fcp):
    """What a tool does with a parsed schema before it asks for its reflection: packed layouts of every binding (both
    unroll settings) and verification with every plug-in's checks - on this very FcpV2 object, concretely."""
    from fcp.encoding import make_encoder, PackedEncoderContext
    from fcp.verifier import make_general_verifier
    import importlib

    for unroll in (True, False):
        try:
            enc = make_encoder("packed", fcp, PackedEncoderContext().with_unroll_arrays(unroll))
        except Exception:
            continue
        for impl in fcp.impls:
            try:
                enc.generate(impl)
            except Exception:
                pass
    for plug in (None, "fcp_dbc", "fcp_can_c"):
        try:
            v = make_general_verifier()
            if plug:
                importlib.import_module(plug).Generator().register_checks(v)
            v.verify(fcp)
        except Exception:
            pass


def reference_record(fcp, declared=None):
    if declared is not None:
        class _I:       # a view of the bindings whose extension fields are the declared ones
            def __init__(self, i, d):
                self.name, self.protocol, self.type, self.meta, self.fields = i.name, i.protocol, i.type, i.meta, d[0]
                self.signals = [type("G", (), {"name": g.name, "meta": g.meta, "fields": gf})() for g, gf in zip(i.signals, d[1])]
        impls = [_I(i, d) for i, d in zip(fcp.impls, declared)]
        if len(declared) != len(fcp.impls) or any(len(d[1]) != len(i.signals) for i, d in zip(fcp.impls, declared)):
            impls = None
    else:
        impls = list(fcp.impls)
    if impls is None:
        return {"error": "bindings or signal blocks appeared/disappeared since parsing"}
    major, minor = fcp.version.split(".")
    return {
        "tag": [0x66, 0x63, 0x70],
        "version": int(major) * 1000 + int(minor),
        "structs": [{"name": s.name, "meta": _meta(s.meta),
                     "fields": [{"name": f.name, "field_id": f.field_id, "type": _chain(f.type), "unit": f.unit,
                                 "min_value": f.min_value, "max_value": f.max_value, "meta": _meta(f.meta)}
                                for f in s.fields]} for s in fcp.structs],
        "enums": [{"name": e.name, "meta": _meta(e.meta),
                   "enumeration": [{"name": v.name, "value": v.value, "meta": _meta(v.meta)} for v in e.enumeration]}
                  for e in fcp.enums],
        "impls": [{"name": i.name, "protocol": i.protocol, "type": i.type, "fields": _dict_fields(i.fields),
                   "signals": [{"name": g.name, "fields": _dict_fields(g.fields), "meta": _meta(g.meta)}
                               for g in i.signals], "meta": _meta(i.meta)} for i in impls],
        "services": [{"name": s.name, "id": s.id, "meta": _meta(s.meta),
                      "methods": [{"name": m.name, "id": m.id, "input": m.input, "output": m.output,
                                   "meta": _meta(m.meta)} for m in s.methods]} for s in fcp.services],
    }


def _refl():
    add_repo_paths()
    from fcp.reflection import get_reflection_schema

    rfcp = get_reflection_schema().unwrap()
    return rfcp, schema_from_fcp(rfcp, top="Fcp")


def c12_case(args):
    tname, strlen, tier = args
    serde = serde_checks._setup()
    res = new_result()
    known = Known("C12")
    rfcp, rsch = _refl()
    T = ("struct", "Fcp")
    # history: an application schema whose struct names collide with those of the reflection schema was used first
    from ..prime import prime
    prime(COLLIDING, ("serde", "layout"))
    fcp = parse(TEMPLATES[tname])
    declared = declared_of(fcp)
    if strlen == (2, 0, 3, 1) or True:
        ob0 = f"{tname}|tree-holds-what-the-source-declares"
        res["obligations"].append(ob0)
        bad = source_mismatch(tname, fcp)
        if bad:
            from ..common import write_replay, run_replay
            path = write_replay("C12", {"kind": "reflection_source", "template": tname, "property": "C12", "what": bad})
            okr, text = run_replay(path)
            if okr:
                res["violations"].append({"replay": path, "ob": ob0, "what": f"{bad} :: {text[-200:]}"})
            else:
                res["inconclusive"].append(f"{ob0}: {bad}: replay did not reproduce ({text[-120:]})")
            return res
        res["discharged"] += 1
    if fcp.services:
        ob1 = f"{tname}|reflection-follows-the-tree-after-generate_rpc"
        res["obligations"].append(ob1)
        bad = after_rpc_mismatch(tname)
        if bad:
            from ..common import write_replay, run_replay
            path = write_replay("C12", {"kind": "reflection_after_rpc", "template": tname, "property": "C12", "what": bad})
            okr, text = run_replay(path)
            if okr:
                res["violations"].append({"replay": path, "ob": ob1, "what": f"{bad[:400]} :: {text[-200:]}"})
            else:
                res["inconclusive"].append(f"{ob1}: {bad[:200]}: replay did not reproduce ({text[-120:]})")
            return res
        res["discharged"] += 1
    same_object_history(fcp)
    P = Patcher(strlen=strlen)
    P.patch(fcp)
    feats = {"desc": f"{tname}/strlen{strlen}", "template": tname, "has_signed": True}
    cov = Coverage()
    eng = Engine(timeout_ms=240000 if tier == "quick" else 600000, max_paths=2000)

    def body():
        first = fcp.reflection()
        rec = fcp.reflection()        # asking again must give the same description (no state kept on the tree)
        enc = serde.encode(rfcp, "Fcp", rec)
        dec = serde.decode(rfcp, "Fcp", enc)
        return (first, rec), dec

    def env():
        ints = {k: v.e for k, v in P.vars.items() if type(v) is SymInt}
        return {"v": ints, "signed": {k: 32 for k in ints if k.endswith(".value")}, "unsigned": {}}

    def mk(m):
        asg = {}
        for k, v in P.vars.items():
            asg[k] = concretize(v, m)
        return {"kind": "reflection", "template": tname, "assignment": to_json(asg)}

    def body_a():
        first = fcp.reflection()
        return first, fcp.reflection()

    try:
        # phase A (cheap): the record alone, on every path; a case that is already red here does not go on to the
        # expensive serialisation phase (a change that makes reflection() branch on symbolic leaves multiplies the paths)
        eng_a = Engine(timeout_ms=240000 if tier == "quick" else 600000, max_paths=2000)
        red = False
        for pi, (kind, out, pc) in enumerate(serde_checks._explore(eng_a, body_a, P.assume, cov)):
            ob = f"{feats['desc']}|A{pi}"
            if kind == "exc":
                continue        # judged in phase B (same exception there)
            first, rec = out
            try:
                exp = reference_record(fcp, declared)
                faithful = z3.And(refspec.eq_value(rsch, T, first, exp), refspec.eq_value(rsch, T, rec, exp))
            except Exception:
                faithful = z3.BoolVal(False)
            r_, _ = eng_a.check(z3.Not(faithful), pc=list(pc))
            if r_ == "sat":
                decide(eng_a, pc, z3.Not(faithful), prop="C12", ob_id=ob + "|faithful", res=res, known=known, features=feats,
                       env=env(), make_replay=mk, what=f"reflection record differs from the declared schema on {tname}")
                if res["violations"]:
                    red = True
                    break
        finish_engine(res, eng_a)
        if red:
            res["functions"] = sorted(cov.seen)
            res["sample"] = {"template": tname, "string_lengths": list(strlen), "stopped_after_phase_A": True}
            return res
        for pi, (kind, out, pc) in enumerate(serde_checks._explore(eng, body, P.assume, cov)):
            ob = f"{feats['desc']}|path{pi}"
            if kind == "exc":
                decide(eng, pc, z3.BoolVal(True), prop="C12", ob_id=ob + "|total", res=res, known=known,
                       features=feats, env=env(), make_replay=mk,
                       what=f"reflection/serialisation raised {type(out).__name__}: {str(out)[:120]} on {tname}")
                continue
            (first, rec), dec = out
            try:
                exp = reference_record(fcp, declared)
                faithful = z3.And(refspec.eq_value(rsch, T, first, exp), refspec.eq_value(rsch, T, rec, exp))
            except Exception as e:
                faithful = z3.BoolVal(False)
            decide(eng, pc, z3.Not(faithful), prop="C12", ob_id=ob + "|faithful", res=res, known=known, features=feats,
                   env=env(), make_replay=mk, what=f"reflection record differs from the declared schema on {tname}")
            decide(eng, pc, z3.Not(refspec.eq_value(rsch, T, dec, rec)), prop="C12", ob_id=ob + "|lossless", res=res,
                   known=known, features=feats, env=env(), make_replay=mk,
                   what=f"decode(encode(reflection record)) != record on {tname}")
        res["vacuity"]["twin_expected"] = 1
        res["vacuity"]["twin_reached"] = 1 if res["paths"] or eng.npaths else 0
    except EngineLimit as e:
        res["inconclusive"].append(f"{feats['desc']}: engine limit: {e}")
    finish_engine(res, eng)
    res["functions"] = sorted(cov.seen)
    res["sample"] = {"template": tname, "string_lengths": list(strlen), "symbolic_leaves": len(P.vars),
                     "paths": res["paths"], "queries": res["queries"]}
    return res


def run_c12(tier: str) -> int:
    rep = Report("C12", tier)
    pats = [(2, 0, 3, 1), (0,), (1, 2)] if tier == "quick" else [(2, 0, 3, 1), (0,), (1, 2), (3,), (4, 1, 0), (0, 5)]
    cases = [(t, p, tier) for t in TEMPLATES for p in pats]
    rep.bounds = {
        "templates": sorted(TEMPLATES),
        "symbolic": "every name/unit/file name is a string of symbolic 7-bit characters (lengths from the patterns), "
                    "field/service/method ids and array sizes over u32, enumerator values over i32, source positions in "
                    "[0, 2^31), range bounds as arbitrary f64 bit patterns",
        "string_length_patterns": [list(p) for p in pats],
        "outside": "other schema skeletons; extension-field values (rendered by str()) stay concrete",
    }
    rep.stubs = serde_checks.STUBS
    rep.assumptions = serde_checks.STUB_NOTE + [
        "the tree is produced by the real parser from the template and its leaves are then replaced by symbolic values",
        "reference description (reference_record) written from the property text and the field names of reflection.fcp"]
    for r in pmap(c12_case, cases):
        rep.merge(r)
        if rep.red_enough():
            break
    return rep.finish()
