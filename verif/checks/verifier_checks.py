"""C09: verdict of the real Verifier (general rules + plug-in rules) <=> well-formedness specification."""
from __future__ import annotations

import itertools

import z3

from ..common import Known, Report, pmap, add_repo_paths
from ..decide import decide, new_result, finish_engine
from ..pysym import (Engine, EngineLimit, SymInt, SymAtom, AtomSpace, Coverage, W, z3of, sym_sum, sym_sorted,
                     ForkingRange, sym_max)
from ..pystubs import SymWidthName, sym_int_ext, MathStub, sym_log2, sym_ceil


def _setup():
    add_repo_paths()
    from fcp.specs import type as type_mod
    from fcp.specs import enum as enum_mod
    from fcp import encoding
    import fcp_can_c.generator as cgen

    type_mod.int = sym_int_ext
    cgen.sum = sym_sum
    encoding.sorted = sym_sorted
    encoding.int = sym_int_ext
    encoding.log2 = sym_log2
    encoding.ceil = sym_ceil
    encoding.range = ForkingRange
    enum_mod.math = MathStub()
    enum_mod.max = sym_max
    enum_mod.int = sym_int_ext
    from fcp import verifier as verifier_mod
    import fcp_dbc.generator as dgen
    from ..pystubs import install_collections
    install_collections(verifier_mod, dgen, cgen)


# ---------------------------------------------------------------- tree descriptions
# desc = dict(structs=[(name, [(fname, ftype)])], enums=[(name, [(ename, value)])],
#             impls=[(name, protocol, type, id|None)], services=[name], devices=[(name, [svc]|None)])
# names are SymAtom | str, values/ids SymInt | int, ftype ('u'|'i', width SymInt|int)

def EQ(a, b):
    if type(a) is str and type(b) is str:
        return z3.BoolVal(a == b)
    ea = a.e if type(a) is SymAtom else AtomSpace.cur.const(a)
    eb = b.e if type(b) is SymAtom else AtomSpace.cur.const(b)
    return ea == eb


def pairwise_distinct(xs, eq=EQ):
    cs = [z3.Not(eq(a, b)) for a, b in itertools.combinations(xs, 2)]
    return z3.And(*cs) if cs else z3.BoolVal(True)


def IEQ(a, b):
    if a is None or b is None:
        return z3.BoolVal(a is None and b is None)
    return z3of(a) == z3of(b)


def spec_general(d):
    cs = [pairwise_distinct([n for n, _ in d["structs"]] + [n for n, _ in d["enums"]])]
    cs.append(z3.And(*[z3.Not(z3.And(EQ(a[0], b[0]), EQ(a[1], b[1])))
                       for a, b in itertools.combinations(d["impls"], 2)] or [z3.BoolVal(True)]))
    for _, fs in d["structs"]:
        cs.append(z3.BoolVal(len(fs) > 0))
        cs.append(pairwise_distinct([fn for fn, _ in fs]))
    for _, es in d["enums"]:
        cs.append(pairwise_distinct([n for n, _ in es]))
        cs.append(pairwise_distinct([v for _, v in es], eq=IEQ))
    for _, svcs in d["devices"]:
        if svcs is None:
            continue
        for s in (svcs if isinstance(svcs, (list, tuple)) else [svcs]):     # `services: name` lists one service
            cs.append(z3.Or(*[EQ(s, t) for t in d["services"]]) if d["services"] else z3.BoolVal(False))
    return z3.And(*cs)


def _known_struct(d, tname):
    return z3.Or(*[EQ(tname, n) for n, _ in d["structs"]]) if d["structs"] else z3.BoolVal(False)


def spec_dbc(d):
    cs = [spec_general(d)]
    for name, proto, tname, *_ in d["impls"]:
        cs.append(_known_struct(d, tname))
    can = [(i, x) for i, x in enumerate(d["impls"]) if x[3] is not None]
    for (i, a), (j, b) in itertools.combinations(can, 2):
        both_can = z3.And(EQ(a[1], "can"), EQ(b[1], "can"))
        cs.append(z3.Not(z3.And(both_can, IEQ(a[3], b[3]))))
    return z3.And(*cs)


def spec_can_c(d):
    cs = [spec_general(d)]
    for name, proto, tname, *_ in d["impls"]:
        cs.append(_known_struct(d, tname))
        # a CAN message wider than 64 bits is rejected
        for sn, fs in d["structs"]:
            total = _width(d, ("struct", sn))
            cs.append(z3.Implies(z3.And(EQ(proto, "can"), EQ(tname, sn)), total <= 64))
    return z3.And(*cs)


def _width(d, t):
    """Packed width of a field type as a W-bit term (struct/enum references are by Python identity of the name)."""
    k = t[0]
    if k in ("u", "i"):
        return z3of(t[1])
    if k == "enum":
        es = [e for n, e in d["enums"] if n is t[1]][0]
        m = max(v for _, v in es)
        return z3.BitVecVal(max(1, int(m).bit_length()), W)
    if k == "struct":
        fs = [f for n, f in d["structs"] if n is t[1]][0]
        total = z3.BitVecVal(0, W)
        for _, ft in fs:
            total = total + _width(d, ft)
        return total
    raise ValueError(t)


def build(d):
    """Description -> real FcpV2 tree through the real constructors."""
    from fcp.specs.v2 import FcpV2
    from fcp.specs.struct import Struct
    from fcp.specs.struct_field import StructField
    from fcp.specs.enum import Enum, Enumeration
    from fcp.specs.impl import Impl
    from fcp.specs.service import Service
    from fcp.specs.device import Device
    from fcp.specs.type import UnsignedType, SignedType, EnumType, StructType
    from fcp.specs.metadata import MetaData

    meta = MetaData(1, 1, 1, 1, 0, 0, "main.fcp")

    def ty(t):
        k, w = t
        if k == "enum":
            return EnumType(w)
        if k == "struct":
            return StructType(w)
        name = SymWidthName(k, w) if type(w) is SymInt else f"{k}{w}"
        return UnsignedType(name) if k == "u" else SignedType(name)

    fcp = FcpV2()
    fcp.structs = [Struct(name=n, fields=[StructField(fn, i, ty(t)) for i, (fn, t) in enumerate(fs)], meta=meta)
                   for n, fs in d["structs"]]
    fcp.enums = [_mk_enum(Enum, Enumeration, n, es, meta) for n, es in d["enums"]]
    fcp.impls = [Impl(x[0], x[1], x[2], dict(({} if x[3] is None else {"id": x[3]}), **(x[4] if len(x) > 4 else {})),
                      [], meta) for x in d["impls"]]
    fcp.services = [Service(n, k, [], meta=meta) for k, n in enumerate(d["services"])]
    fcp.devices = [Device(n, ({} if s is None else {"services": list(s) if isinstance(s, (list, tuple)) else s}), meta)
                   for n, s in d["devices"]]
    return fcp


def decoy_desc(d):
    """Same names everywhere, other field widths and enumerator values: a different schema that was verified earlier in
    the same process (state keyed by names - caches on classes, modules, plug-in objects - must not leak into the verdict)."""
    def ty(t):
        if t[0] in ("u", "i"):
            return (t[0], 1)
        return t

    def enum(es):
        top = max(range(len(es)), key=lambda i: es[i][1] if isinstance(es[i][1], int) else 0) if es else 0
        return [(n, (200 + i if i == top else i)) for i, (n, _) in enumerate(es)]

    return dict(structs=[(n, [(fn, ty(t)) for fn, t in fs]) for n, fs in d["structs"]],
                enums=[(n, enum(es)) for n, es in d["enums"]], impls=list(d["impls"]), services=list(d["services"]),
                devices=list(d["devices"]))


DECOY_FIRST = ("size", "size_compound", "bodyless", "enum", "bind")


def _mk_enum(Enum, Enumeration, n, es, meta):
    e = Enum.__new__(Enum)  # Enum.__init__ asserts a non-empty list; the verifier's domain includes any list
    e.name, e.enumeration, e.meta = n, [Enumeration(a, v, meta) for a, v in es], meta
    return e


# ---------------------------------------------------------------- skeletons
class Sites:
    def __init__(self):
        self.space = AtomSpace()
        for s in ("default", "can", "services", "id"):
            self.space.const(s)
        self.assume = []
        self.atoms = {}
        self.ints = {}

    def A(self, n):
        if n not in self.atoms:
            self.atoms[n] = SymAtom(n)
        return self.atoms[n]

    def I(self, n, lo, hi):
        if n not in self.ints:
            self.ints[n], c = SymInt.fresh(n, lo, hi)
            self.assume.append(c)
        return self.ints[n]


def default_impls(structs):
    return [(n, "default", n, None) for n, _ in structs]


def skeletons(tier):
    """name -> builder(S: Sites) -> desc"""
    U8 = ("u", 8)

    def k_types(S):
        st = [(S.A("s1"), [(S.A("f1"), U8)]), (S.A("s2"), [(S.A("f2"), U8)]), (S.A("s3"), [(S.A("f3"), U8)])]
        en = [(S.A("e1"), [(S.A("n1"), 0)]), (S.A("e2"), [(S.A("n2"), 0)])]
        return dict(structs=st, enums=en, impls=default_impls(st), services=[], devices=[])

    def k_fields(S):
        st = [(S.A("s1"), [(S.A("f1"), U8), (S.A("f2"), U8), (S.A("f3"), U8)]), (S.A("s2"), [(S.A("g1"), U8), (S.A("g2"), U8)])]
        return dict(structs=st, enums=[], impls=default_impls(st), services=[], devices=[])

    def k_empty_struct(S):
        st = [(S.A("s1"), [(S.A("f1"), U8)]), (S.A("s2"), [])]
        return dict(structs=st, enums=[], impls=default_impls(st), services=[], devices=[])

    def k_enum(S):
        en = [(S.A("e1"), [(S.A("n1"), S.I("v1", -2 ** 31, 2 ** 31 - 1)), (S.A("n2"), S.I("v2", -2 ** 31, 2 ** 31 - 1)),
                           (S.A("n3"), S.I("v3", -2 ** 31, 2 ** 31 - 1))]),
              (S.A("e2"), [(S.A("m1"), S.I("u1", -2 ** 31, 2 ** 31 - 1)), (S.A("m2"), S.I("u2", -2 ** 31, 2 ** 31 - 1))])]
        st = [(S.A("s1"), [(S.A("f1"), U8)])]
        return dict(structs=st, enums=en, impls=default_impls(st), services=[], devices=[])

    def k_impls(S):
        st = [(S.A("s1"), [(S.A("f1"), U8)]), (S.A("s2"), [(S.A("f2"), U8)])]
        impls = default_impls(st) + [(S.A("i1"), S.A("p1"), st[0][0], S.I("id1", 0, 2047)),
                                     (S.A("i2"), S.A("p2"), st[1][0], S.I("id2", 0, 2047)),
                                     (S.A("i3"), "can", st[0][0], S.I("id3", 0, 2047))]
        return dict(structs=st, enums=[], impls=impls, services=[], devices=[])

    def k_devices(S):
        st = [(S.A("s1"), [(S.A("f1"), U8)])]
        return dict(structs=st, enums=[], impls=default_impls(st), services=[S.A("sv1"), S.A("sv2")],
                    devices=[(S.A("d1"), [S.A("r1"), S.A("r2")]), (S.A("d2"), None), (S.A("d3"), [S.A("r3")]),
                             (S.A("d4"), "svc_one")])       # `services: svc_one,` - a single name instead of a list
                                                            # (a concrete spelling: code may look at its characters)

    def k_devices_nosvc(S):
        st = [(S.A("s1"), [(S.A("f1"), U8)])]
        return dict(structs=st, enums=[], impls=default_impls(st), services=[],
                    devices=[(S.A("d1"), [S.A("r1")]), (S.A("d2"), [])])

    def k_bind(S):  # plug-in rules: unknown struct, duplicate CAN ids, with and without ids
        st = [(S.A("s1"), [(S.A("f1"), U8)]), (S.A("s2"), [(S.A("f2"), U8)])]
        impls = default_impls(st) + [(S.A("i1"), "can", S.A("t1"), S.I("id1", 0, 2047)),
                                     (S.A("i2"), "can", S.A("t2"), S.I("id2", 0, 2047)),
                                     (S.A("i3"), S.A("p3"), S.A("t3"), S.I("id3", 0, 2047))]
        return dict(structs=st, enums=[], impls=impls, services=[], devices=[])

    def k_bind_enum(S):  # a binding may name an enum: 'binding to an unknown struct' means struct, not any declared type
        st = [(S.A("s1"), [(S.A("f1"), U8)])]
        en = [(S.A("e1"), [(S.A("n1"), 0), (S.A("n2"), 3)])]
        impls = default_impls(st) + [(S.A("i1"), "can", S.A("t1"), S.I("id1", 0, 2047)),
                                     (S.A("i2"), S.A("p2"), S.A("t2"), None)]
        return dict(structs=st, enums=en, impls=impls, services=[], devices=[])

    def k_bind_noid(S):
        st = [(S.A("s1"), [(S.A("f1"), U8)]), (S.A("s2"), [(S.A("f2"), U8)]), (S.A("s3"), [(S.A("f3"), U8)])]
        impls = default_impls(st) + [(S.A("i1"), "can", st[0][0], S.I("id1", 0, 2047)),
                                     (S.A("i2"), "can", st[1][0], None)]
        return dict(structs=st, enums=[], impls=impls, services=[], devices=[])

    def k_bind_bus(S):  # other extension fields next to the id (bus, device): the DBC rule compares frame ids only
        st = [(S.A("s1"), [(S.A("f1"), U8)]), (S.A("s2"), [(S.A("f2"), U8)]), (S.A("s3"), [(S.A("f3"), U8)])]
        impls = default_impls(st) + [(S.A("i1"), "can", st[0][0], S.I("id1", 0, 2047), {"bus": S.A("b1"), "device": S.A("d1")}),
                                     (S.A("i2"), "can", st[1][0], S.I("id2", 0, 2047), {"bus": S.A("b2")}),
                                     (S.A("i3"), "can", st[2][0], S.I("id3", 0, 2047), {"device": S.A("d3")})]
        return dict(structs=st, enums=[], impls=impls, services=[], devices=[])

    def k_bodyless(S):  # bindings without any extension field or signal block (what a tree built by hand may hold)
        st = [(S.A("s1"), [(S.A("f1"), ("u", S.I("w1", 1, 64))), (S.A("f2"), ("u", S.I("w2", 1, 64)))])]
        impls = default_impls(st) + [(S.A("i1"), S.A("p1"), S.A("t1"), None), (S.A("i2"), S.A("p2"), S.A("t2"), None),
                                     (S.A("i3"), "can", S.A("t3"), None)]
        return dict(structs=st, enums=[], impls=impls, services=[], devices=[])

    def k_size(S):  # C rule: message wider than 64 bits, widths symbolic
        w = lambda n: ("u", S.I(n, 1, 64))
        st = [(S.A("s1"), [(S.A("f1"), w("w1")), (S.A("f2"), w("w2")), (S.A("f3"), ("i", S.I("w3", 1, 64)))]),
              (S.A("s2"), [(S.A("g1"), w("w4")), (S.A("g2"), w("w5"))])]
        impls = default_impls(st) + [(S.A("i1"), "can", st[0][0], 1), (S.A("i2"), S.A("p2"), st[1][0], 2)]
        return dict(structs=st, enums=[], impls=impls, services=[], devices=[])

    def k_size_compound(S):  # C rule on a CAN struct with an enum field and a nested struct
        e1 = S.A("e1")
        inner = S.A("s0")
        st = [(inner, [(S.A("h1"), ("u", S.I("w4", 1, 64)))]),
              (S.A("s1"), [(S.A("f1"), ("u", S.I("w1", 1, 64))), (S.A("f2"), ("enum", e1)), (S.A("f3"), ("struct", inner))])]
        en = [(e1, [(S.A("n1"), 0), (S.A("n2"), 5)])]
        impls = default_impls(st) + [(S.A("i1"), "can", st[1][0], 1)]
        return dict(structs=st, enums=en, impls=impls, services=[], devices=[])

    def k_combined(S):  # every rule at once: 2 structs x 2 fields, enum x 2, 2 extra bindings, service + device
        st = [(S.A("s1"), [(S.A("f1"), ("u", S.I("w1", 1, 64))), (S.A("f2"), U8)]),
              (S.A("s2"), [(S.A("g1"), U8), (S.A("g2"), U8)])]
        en = [(S.A("e1"), [(S.A("n1"), S.I("v1", -2 ** 31, 2 ** 31 - 1)), (S.A("n2"), S.I("v2", -2 ** 31, 2 ** 31 - 1))])]
        impls = default_impls(st) + [(S.A("i1"), "can", S.A("t1"), S.I("id1", 0, 2047)),
                                     (S.A("i2"), S.A("p2"), st[1][0], S.I("id2", 0, 2047))]
        return dict(structs=st, enums=en, impls=impls, services=[S.A("sv1")], devices=[(S.A("d1"), [S.A("r1")])])

    def k_three_structs(S):
        st = [(S.A(f"s{i}"), [(S.A(f"f{i}a"), U8), (S.A(f"f{i}b"), U8), (S.A(f"f{i}c"), U8)]) for i in range(3)]
        return dict(structs=st, enums=[], impls=default_impls(st), services=[], devices=[])

    sk = {"bodyless": k_bodyless, "size_compound": k_size_compound, "types": k_types, "fields": k_fields, "empty_struct": k_empty_struct, "enum": k_enum, "impls": k_impls,
          "devices": k_devices, "devices_nosvc": k_devices_nosvc, "bind": k_bind, "bind_noid": k_bind_noid,
          "size": k_size, "bind_bus": k_bind_bus, "bind_enum": k_bind_enum}
    if tier == "thorough":
        sk["combined"] = k_combined
        sk["three_structs"] = k_three_structs
    return sk


def permute(d, variant):
    """Declaration-order variants: 0 = as written, 1 = every list reversed, 2 = rotated by one."""
    def p(xs):
        xs = list(xs)
        if variant == 1:
            return xs[::-1]
        if variant == 2 and xs:
            return xs[1:] + xs[:1]
        return xs
    return dict(structs=p([(n, p(fs)) for n, fs in d["structs"]]),
                enums=p([(n, p(es)) for n, es in d["enums"]]),
                impls=p(d["impls"]), services=p(d["services"]),
                devices=p([(n, p(s) if isinstance(s, (list, tuple)) else s) for n, s in d["devices"]]))


PRIME_TEXT = ('version: "3"\nstruct P { a @0: u8, }\nimpl can for P {\n    id: 1,\n}\n')
ALWAYS_ILL_FORMED = ("empty_struct", "devices_nosvc")
PLUGINS = {"general": None, "dbc": "fcp_dbc", "can_c": "fcp_can_c"}
SPECS = {"general": spec_general, "dbc": spec_dbc, "can_c": spec_can_c}


def c09_case(args):
    skname, plugin, variant, tier = args
    _setup()
    from fcp.verifier import make_general_verifier
    import importlib

    res = new_result()
    known = Known("C09")
    # history: in this process verifiers have already been created and extended with both plug-ins' checks
    from ..prime import prime
    prime(PRIME_TEXT, ("verify",))
    S = Sites()
    d = permute(skeletons(tier)[skname](S), variant)
    spec = SPECS[plugin](d)
    feats = {"desc": f"{skname}/{plugin}/perm{variant}", "skeleton": skname, "plugin": plugin, "perm": variant}
    cov = Coverage()
    eng = Engine(timeout_ms=240000 if tier == "quick" else 600000, max_paths=50000)
    mod = importlib.import_module(PLUGINS[plugin]) if PLUGINS[plugin] else None

    def body():
        if skname in DECOY_FIRST:
            # history: a same-named but different schema went through a verifier of the same configuration first
            v0 = make_general_verifier()
            if mod is not None:
                mod.Generator().register_checks(v0)
            try:
                v0.verify(build(decoy_desc(d)))
            except EngineLimit:
                raise
            except Exception:
                pass
        v = make_general_verifier()
        if mod is not None:
            mod.Generator().register_checks(v)
        return v.verify(build(d)).is_ok()

    def mk(m):
        names = {k: a.realize(m) for k, a in S.atoms.items()}
        ints = {k: m.eval(x.e, model_completion=True).as_signed_long() for k, x in S.ints.items()}
        return {"kind": "verifier", "skeleton": skname, "plugin": plugin, "perm": variant, "names": names, "decoy_text": PRIME_TEXT,
                "ints": ints, "spec": bool(z3.is_true(m.eval(spec, model_completion=True)))}

    env = {"v": {k: x.e for k, x in S.ints.items()}, "a": {k: x.e for k, x in S.atoms.items()}}
    try:
        paths = []
        base = S.space.constraints()
        from .serde_checks import _explore
        for pi, (kind, out, pc) in enumerate(_explore(eng, body, S.assume + S.space.constraints(), cov)):
            paths.append((kind, out, pc))
            if len(res["violations"]) + len(res["unconfirmed"]) + res.get("violations_unreplayed", 0) >= 3:
                break   # the case is red
            ob = f"{feats['desc']}|path{pi}"
            pcx = pc + [c for c in S.space.constraints() if not any(c is b for b in base)]
            if kind == "exc":
                # an exception is "not success": it contradicts the specification only for well-formed trees
                decide(eng, pcx, spec, prop="C09", ob_id=ob, res=res, known=known, features=feats, env=env,
                       make_replay=mk, what=f"verify raised {type(out).__name__}: {str(out)[:100]} on {feats['desc']}")
                continue
            viol = z3.Not(spec) if out else spec
            decide(eng, pcx, viol, prop="C09", ob_id=ob, res=res, known=known, features=feats, env=env, make_replay=mk,
                   what=f"verify returned {'Ok' if out else 'Err'} but the specification says "
                        f"{'ill-formed' if out else 'well-formed'} on {feats['desc']}")
        res["vacuity"] = {"ok_paths": sum(1 for k, o, _ in paths if k == "ret" and o),
                          "err_paths": sum(1 for k, o, _ in paths if k == "ret" and not o)}
        if res["vacuity"]["err_paths"] == 0 or (res["vacuity"]["ok_paths"] == 0 and skname not in ALWAYS_ILL_FORMED):
            res["inconclusive"].append(f"{feats['desc']}: vacuous skeleton: {res['vacuity']}")
    except EngineLimit as e:
        res["inconclusive"].append(f"{feats['desc']}: engine limit: {e}")
    finish_engine(res, eng)
    res["functions"] = sorted(cov.seen)
    res["sample"] = {"case": feats["desc"], "atoms": sorted(S.atoms), "ints": sorted(S.ints), "paths": res["paths"],
                     "queries": res["queries"], "verdicts": {"discharged": res["discharged"],
                                                             "violations": len(res["violations"]),
                                                             "known": len(res["known"])}}
    return res


def run_c09(tier: str) -> int:
    rep = Report("C09", tier)
    sk = skeletons(tier)
    cases = []
    for name in sk:
        for plugin in ("general", "dbc", "can_c"):
            if name in ("bind", "bind_noid", "bind_bus", "bind_enum") and plugin == "general":
                continue  # bindings to unknown structs are not constrained by the general rules: still run
            for variant in ((0, 1) if tier == "quick" else (0, 1, 2)):
                if plugin != "general" and name not in ("bind", "bind_noid", "bind_bus", "bind_enum", "bodyless", "size", "size_compound", "impls", "types", "combined") and variant:
                    continue
                cases.append((name, plugin, variant, tier))
    for name in ("bind", "bind_noid"):
        cases.append((name, "general", 0, tier))
    rep.bounds = {
        "skeletons": sorted(sk),
        "scope": "<= 3 structs x <= 3 fields, <= 2 enums x <= 3 enumerators, <= 5 bindings, <= 2 services, <= 3 devices",
        "symbolic": "every declared name is an opaque atom (all equality patterns, decided by z3), enumerator values "
                    "in [-2^31, 2^31), frame ids 0..2047, field widths 1..64",
        "configurations": "general rules alone, + fcp_dbc checks, + fcp_can_c checks",
        "declaration_orders": "as written, all lists reversed" + (", rotated" if tier == "thorough" else ""),
        "outside": "larger trees; names whose behaviour depends on their spelling (none of the checks look at it)",
    }
    rep.stubs = ["int (type name suffix)", "sum", "sorted", "log2/ceil"]
    rep.assumptions = [
        "names are modelled as opaque atoms: only ==/!= is observable (any other string operation is an EngineLimit)",
        "trees are built through the real constructors (pyserde strict type checks accept the proxies)",
        "specification clauses written directly in z3 from the property text (spec_general/spec_dbc/spec_can_c)",
        "DBC rule 'two CAN bindings with the same frame id' = two bindings with protocol 'can' that both declare an id",
        "C rule 'message wider than 64 bits' = a binding with protocol 'can' whose struct's field widths sum to > 64",
    ]
    cases.sort(key=lambda c: (c[1] != "general", c[0]))     # general-rule cases first: they are the cheapest
    for r in pmap(c09_case, cases):
        rep.merge(r)
        if rep.red_enough():
            break
    if rep.vacuity.get("ok_paths", 0) == 0 or rep.vacuity.get("err_paths", 0) == 0:
        rep.inconclusive.append(f"vacuity: need both Ok and Err paths, got {rep.vacuity}")
    return rep.finish()
