"""C08 / C20: the real FcpV2Transformer (incl. mod_expr, nested transformer, FcpV2.merge) under pysym.

The Earley parser is stubbed at its boundary: every concrete template text is parsed by the real parser and the
identifier leaves that are placeholders (N<i> declarations, R<i> references) are replaced by opaque name atoms, so
tree shapes come from the real grammar and names are symbolic.  `open` is an in-memory file map keyed by the path the
code computes."""
from __future__ import annotations

import io
import itertools
import pathlib
import re

import z3

from ..common import Known, Report, pmap, add_repo_paths
from ..decide import decide, new_result, finish_engine
from ..pysym import Engine, EngineLimit, SymAtom, SymInt, SymText, AtomSpace, Coverage, z3of

ROOT = "/nonexistent_verif_fs/proj"
PLACEHOLDER = re.compile(r"^[NR]\d+$")


class _StrMeta(type):
    def __instancecheck__(cls, obj):
        return isinstance(obj, str) or type(obj) in (SymAtom, SymText)


class StrNS(metaclass=_StrMeta):
    """Stand-in for the `str` builtin inside fcp.parser: identity on atoms, isinstance-compatible."""

    def __new__(cls, x=""):
        if type(x) is Leaf:
            return x.value          # str(token) is the token's text
        return x if type(x) in (SymAtom, SymText) else str(x)


class Leaf:
    """Stands in for a CNAME token whose text is an atom: .value / str() give the atom, comparisons are the atom's,
    position attributes are those of the token it replaces; anything that needs the text as a Python str is an
    EngineLimit (never a silent placeholder)."""

    def __init__(self, atom, token=None):
        self.value = atom
        self._token = token

    def __eq__(self, o):
        return self.value == (o.value if type(o) is Leaf else o)

    def __ne__(self, o):
        return self.value != (o.value if type(o) is Leaf else o)

    def __hash__(self):
        return 0

    def __str__(self):
        raise EngineLimit("the text of a symbolic identifier token was needed as a Python str")

    def __getattr__(self, name):
        if name.startswith("__") or self.__dict__.get("_token") is None:
            raise AttributeError(name)
        return getattr(self.__dict__["_token"], name)


class World:
    """One symbolic world: atoms for the placeholders, template files written to a scratch directory (the real code
    reads them however it likes), the Earley parser stubbed at its boundary inside fcp.parser."""

    def __init__(self, files: dict):
        add_repo_paths()
        import atexit
        import shutil
        import tempfile
        from fcp import parser as P

        self.P = P
        from ..common import reg_tmp
        self.root = reg_tmp(tempfile.mkdtemp(prefix="verif_fs_"))
        atexit.register(shutil.rmtree, self.root, ignore_errors=True)
        self.files = {}
        for k, v in files.items():
            self.write(k, v)
        self.space = AtomSpace()
        self.atoms = {}
        self.real_parser = getattr(P, "_verif_real_parser", None) or P.fcp_parser
        P._verif_real_parser = self.real_parser
        world = self

        class ParserStub:
            def parse(self, text, *a, **k):
                return world.subst(world.real_parser.parse(text))

            def __getattr__(self, n):
                return getattr(world.real_parser, n)

        P.fcp_parser = ParserStub()
        P.str = StrNS

    def write(self, rel, text, root=None):
        import os
        path = os.path.join(root or self.root, rel)
        os.makedirs(os.path.dirname(path), exist_ok=True)
        with open(path, "w") as f:
            f.write(text)
        if root is None:
            self.files[rel] = text
        return path

    def cleanup(self):
        import shutil
        shutil.rmtree(self.root, ignore_errors=True)

    def atom(self, name):
        if name not in self.atoms:
            self.atoms[name] = SymAtom(name)
        return self.atoms[name]

    def prime_decoy(self):
        """History: the same process parsed, through the same public entry point, another project whose files have the
        same names but other contents (declaration kinds swapped in every module file)."""
        import shutil
        import tempfile
        droot = tempfile.mkdtemp(prefix="verif_fs_decoy_")
        try:
            for rel, text in list(self.files.items()):
                if rel not in ("main.fcp", "single.fcp"):
                    text = re.sub(r"enum (\w+) \{[^}]*\}", lambda m: "struct %s { zz @0: u8, }" % m.group(1), text)
                self.write(rel, text, root=droot)
            self.symbolic = False
            try:
                import os
                self.P.get_fcp(os.path.join(droot, "main.fcp"))
            except Exception:
                pass
        finally:
            self.symbolic = True
            shutil.rmtree(droot, ignore_errors=True)

    symbolic = True

    def subst(self, t):
        from lark import Tree
        if not self.symbolic:
            return t

        if isinstance(t, Tree):
            if t.data == "identifier" and PLACEHOLDER.match(str(t.children[0].value)):
                return Tree(t.data, [Leaf(self.atom(str(t.children[0].value)), t.children[0])], t.meta)
            return Tree(t.data, [self.subst(c) for c in t.children], t.meta)
        return t

    def run(self, main="main.fcp"):
        # the public entry point with its default logger (a default argument shared by all calls of the process)
        import os
        return self.P.get_fcp(os.path.join(self.root, main))

    def prescan(self):
        """Create the atoms of every file up front (so assumptions can mention them)."""
        for text in self.files.values():
            try:
                self.subst(self.real_parser.parse(text))
            except Exception:
                pass

    def E(self, n):
        return self.atom(n).e

    def distinct_decls(self, decls):
        es = [self.E(d) for d in decls]
        return [z3.Distinct(*es)] if len(es) > 1 else []


# ---------------------------------------------------------------- C08 templates
V3 = 'version: "3"\n'
C08_TEMPLATES = [
    dict(name="containers",
         files={"main.fcp": V3 + "enum N1 { A = 0, }\nstruct N2 { f @0: u8, }\n"
                                 "struct N3 { g @0: R1, h @1: Optional[[R2, 2]], }\n"},
         decls={"N1": "enum", "N2": "struct", "N3": "struct"},
         refs={"R1": (["N1", "N2"], "N3", "g"), "R2": (["N1", "N2"], "N3", "h")}),
    dict(name="self_and_forward",
         files={"main.fcp": V3 + "struct N1 { a @0: R1, b @1: u3, }\nenum N2 { A = 0, B = 1, }\n"
                                 "struct N3 { c @0: [R2], }\n"},
         decls={"N1": "struct", "N2": "enum", "N3": "struct"},
         refs={"R1": ([], "N1", "a"), "R2": (["N1", "N2"], "N3", "c")}),
    dict(name="deep_containers",
         files={"main.fcp": V3 + "struct N1 { a @0: i5, }\nenum N2 { A = 0, }\n"
                                 "struct N3 { c @0: [[R1, 2], 3], d @1: Optional[[R2]], e @2: [Optional[R3]], }\n"},
         decls={"N1": "struct", "N2": "enum", "N3": "struct"},
         refs={"R1": (["N1", "N2"], "N3", "c"), "R2": (["N1", "N2"], "N3", "d"), "R3": (["N1", "N2"], "N3", "e")}),
    dict(name="import_between",
         files={"main.fcp": V3 + "struct N1 { a @0: u8, }\nmod m;\nstruct N4 { x @0: R1, y @1: R2, }\n",
                "m.fcp": V3 + "enum N2 { A = 0, }\nstruct N3 { b @0: R3, }\n"},
         decls={"N1": "struct", "N2": "enum", "N3": "struct", "N4": "struct"},
         refs={"R1": (["N1", "N2", "N3"], "N4", "x"), "R2": (["N1", "N2", "N3"], "N4", "y"),
               "R3": (["N2"], "N3", "b")}),
    dict(name="import_after_use",
         files={"main.fcp": V3 + "struct N1 { a @0: R1, }\nmod m;\nstruct N3 { b @0: R2, }\n",
                "m.fcp": V3 + "enum N2 { A = 0, }\n"},
         decls={"N1": "struct", "N2": "enum", "N3": "struct"},
         refs={"R1": ([], "N1", "a"), "R2": (["N1", "N2"], "N3", "b")}),
    dict(name="nested_modules",
         files={"main.fcp": V3 + "mod a.b;\nstruct N4 { x @0: R1, }\n",
                "a/b.fcp": V3 + "enum N1 { A = 0, }\nmod c;\nstruct N3 { y @0: R2, }\n",
                "a/c.fcp": V3 + "enum N5 { A = 0, }\nstruct N2 { z @0: R3, }\n"},
         decls={"N1": "enum", "N2": "struct", "N3": "struct", "N4": "struct", "N5": "enum"},
         refs={"R1": (["N1", "N2", "N3", "N5"], "N4", "x"), "R2": (["N1", "N2", "N5"], "N3", "y"), "R3": (["N5"], "N2", "z")}),
    dict(name="binding_alias_is_not_a_type",
         files={"main.fcp": V3 + "struct N1 { a @0: u8, }\nimpl can for N1 as N2 {\n    id: 1,\n}\n"
                                 "struct N3 { g @0: Optional[[R1, 4]], }\n"},
         decls={"N1": "struct", "N2": "alias", "N3": "struct"},
         refs={"R1": (["N1"], "N3", "g")}),
    dict(name="same_named_module_files",     # p/t.fcp and c/t.fcp: same base name, declarations at the same positions
         files={"main.fcp": V3 + "mod p.t;\nmod c.b;\nstruct N4 { x @0: R2, }\n",
                "p/t.fcp": V3 + "struct N1 { a @0: u8, }\n",
                "c/b.fcp": V3 + "mod t;\nstruct N3 { y @0: R1, }\n",
                "c/t.fcp": V3 + "struct N2 { a @0: u8, }\n"},
         decls={"N1": "struct", "N2": "struct", "N3": "struct", "N4": "struct"},
         refs={"R1": (["N2"], "N3", "y"), "R2": (["N1", "N2", "N3"], "N4", "x")}),
    dict(name="module_cannot_see_importer",
         files={"main.fcp": V3 + "enum N1 { A = 0, }\nmod m;\nstruct N3 { y @0: R2, }\n",
                "m.fcp": V3 + "struct N2 { z @0: R1, }\n"},
         decls={"N1": "enum", "N2": "struct", "N3": "struct"},
         refs={"R1": ([], "N2", "z"), "R2": (["N1", "N2"], "N3", "y")}),
]


def _leaf_type(t):
    while hasattr(t, "underlying_type"):
        t = t.underlying_type
    return t


def _find_struct(fcp, atom):
    for s in fcp.structs:
        if s.name is atom:
            return s
    return None


def c08_case(args):
    tpl, tier = args
    res = new_result()
    known = Known("C08")
    W_ = World(tpl["files"])
    W_.prescan()
    W_.prime_decoy()
    decls, refs = tpl["decls"], tpl["refs"]
    assume = W_.distinct_decls(decls)
    feats = {"desc": tpl["name"], "template": tpl["name"]}
    cov = Coverage()
    eng = Engine(timeout_ms=240000 if tier == "quick" else 600000, max_paths=20000)

    def mk(m):
        names = {k: a.realize(m) for k, a in W_.atoms.items()}
        return {"kind": "parser_refs", "files": tpl["files"], "names": names, "template": tpl["name"],
                "decls": decls, "refs": {k: list(v) for k, v in refs.items()}}

    ok_spec = z3.And(*[z3.Or(*[W_.E(r) == W_.E(d) for d in vis]) if vis else z3.BoolVal(False)
                       for r, (vis, _, _) in refs.items()])
    def body():
        out = W_.run()
        extras = {}
        if out.is_ok():
            fcp = out.unwrap()
            for r, (vis, encl, fname) in refs.items():
                st = _find_struct(fcp, W_.atom(encl))
                f = [x for x in st.fields if x.name == fname][0] if st else None
                lt = _leaf_type(f.type) if f else None
                got = fcp.get_type(lt) if lt is not None else None   # real lookup, inside the engine (may fork)
                extras[r] = (lt, None if got is None or got.is_nothing() else type(got.unwrap()).__name__)
        return out, extras

    try:
        with cov:
            paths = list(eng.explore(body, assume))
        for pi, (kind, out, pc) in enumerate(paths):
            ob = f"{tpl['name']}|path{pi}"
            pcx = pc + W_.space.constraints()
            if kind == "ret":
                out, extras = out
            if kind == "exc":
                decide(eng, pcx, z3.BoolVal(True), prop="C08", ob_id=ob + "|total", res=res, known=known,
                       features=feats, env={}, make_replay=mk,
                       what=f"parsing raised {type(out).__name__}: {str(out)[:120]} on template {tpl['name']}")
                continue
            is_ok = out.is_ok()
            decide(eng, pcx, z3.Not(ok_spec) if is_ok else ok_spec, prop="C08", ob_id=ob + "|accept<=>resolvable",
                   res=res, known=known, features=feats, env={}, make_replay=mk,
                   what=("accepted a schema with a reference to nothing declared before its use" if is_ok else
                         "rejected a schema whose references all name earlier declarations") + f" ({tpl['name']})")
            if is_ok:
                cs = []
                for r, (vis, encl, fname) in refs.items():
                    lt, resolved = extras[r]
                    tag = type(lt).__name__
                    if tag not in ("StructType", "EnumType") or lt.name is not W_.atom(r):
                        cs.append(z3.BoolVal(False))
                        continue
                    is_struct = z3.Or(*[W_.E(r) == W_.E(d) for d in vis if decls[d] == "struct"] or [z3.BoolVal(False)])
                    cs.append(is_struct == z3.BoolVal(tag == "StructType"))
                    # FcpV2.get_type resolves it to a declaration of that kind
                    cs.append(z3.BoolVal(resolved == ("Struct" if tag == "StructType" else "Enum")))
                decide(eng, pcx, z3.Not(z3.And(*cs)), prop="C08", ob_id=ob + "|kind", res=res, known=known,
                       features=feats, env={}, make_replay=mk,
                       what=f"a reference is tagged with the wrong kind / does not resolve ({tpl['name']})")
            else:
                chain = [str(m_[0]) for m_ in out.err().msg]
                text = " | ".join(chain)
                # some unresolvable reference must be named together with its enclosing struct
                cs = []
                for r, (vis, encl, fname) in refs.items():
                    unres = z3.Not(z3.Or(*[W_.E(r) == W_.E(d) for d in vis])) if vis else z3.BoolVal(True)
                    named = (f"⟦{r}⟧" in text) and (f"⟦{encl}⟧" in text)
                    cs.append(z3.And(unres, z3.BoolVal(named)))
                decide(eng, pcx, z3.Not(z3.Or(*cs)), prop="C08", ob_id=ob + "|error-names-type-and-struct", res=res,
                       known=known, features=feats, env={}, make_replay=mk,
                       what=f"error does not name the unresolved type and its struct: {text[:160]} ({tpl['name']})")
        res["vacuity"] = {"ok_paths": sum(1 for k, o, _ in paths if k == "ret" and o[0].is_ok()),
                          "err_paths": sum(1 for k, o, _ in paths if k == "ret" and not o[0].is_ok())}
        if all(vis for vis, _, _ in refs.values()) and res["vacuity"]["ok_paths"] == 0:
            res["inconclusive"].append(f"{tpl['name']}: vacuous template - no accepting path although every reference can resolve")
        if res["vacuity"]["err_paths"] == 0:
            res["inconclusive"].append(f"{tpl['name']}: vacuous template - no rejecting path")
    except EngineLimit as e:
        res["inconclusive"].append(f"{tpl['name']}: engine limit: {e}")
    finish_engine(res, eng)
    res["functions"] = sorted(cov.seen)
    res["sample"] = {"template": tpl["name"], "files": tpl["files"], "atoms": sorted(W_.atoms), "paths": res["paths"],
                     "queries": res["queries"]}
    return res


CONTAINERS = ["{R}", "[{R}, 2]", "[{R}]", "Optional[{R}]", "[[{R}, 2], 3]", "Optional[[{R}]]", "[Optional[{R}]]"]


def generated_templates(tier, sd=0):
    """Thorough tier: systematically generated templates - every sequence of 1..3 enum/struct declarations, then a struct
    with two references in containers chosen round-robin; single file, and the same with the declarations moved to a module
    imported before / after the using struct."""
    import itertools
    import random
    rng = random.Random(sd)
    out = []
    k = 0
    for n in (1, 2, 3):
        for kinds in itertools.product(("enum", "struct"), repeat=n):
            names = [f"N{i + 1}" for i in range(n)]
            user = f"N{n + 1}"
            decl_txt = "".join((f"enum {nm} {{ A = 0, }}\n" if kd == "enum" else f"struct {nm} {{ f @0: u8, }}\n")
                               for nm, kd in zip(names, kinds))
            c1 = CONTAINERS[k % len(CONTAINERS)]
            c2 = CONTAINERS[(k * 3 + 1) % len(CONTAINERS)]
            k += 1
            use_txt = f"struct {user} {{ g @0: {c1.format(R='R1')}, h @1: {c2.format(R='R2')}, }}\n"
            decls = dict(zip(names, kinds))
            decls[user] = "struct"
            refs_all = {"R1": (list(names), user, "g"), "R2": (list(names), user, "h")}
            out.append(dict(name=f"gen_single_{''.join(x[0] for x in kinds)}", files={"main.fcp": V3 + decl_txt + use_txt},
                            decls=dict(decls), refs=refs_all))
            out.append(dict(name=f"gen_mod_before_{''.join(x[0] for x in kinds)}",
                            files={"main.fcp": V3 + "mod lib.decls;\n" + use_txt, "lib/decls.fcp": V3 + decl_txt},
                            decls=dict(decls), refs=refs_all))
            out.append(dict(name=f"gen_mod_after_{''.join(x[0] for x in kinds)}",
                            files={"main.fcp": V3 + use_txt + "mod lib.decls;\n", "lib/decls.fcp": V3 + decl_txt},
                            decls=dict(decls), refs={"R1": ([], user, "g"), "R2": ([], user, "h")}))
    return out


def run_c08(tier: str) -> int:
    rep = Report("C08", tier)
    rep.bounds = {
        "templates": [t["name"] for t in C08_TEMPLATES],
        "symbolic": "every declared type name and every reference is an opaque atom (all equality patterns); "
                    "declared names pairwise distinct (the verifier's rule; else 'exactly one' is undefined)",
        "module_graphs": "1-3 files, nesting <= 2, dotted path, mod before/between/after use",
        "outside": "that the Earley parser maps text to these trees (C07), the real file system",
    }
    rep.stubs = ["fcp.parser.fcp_parser (real parse of the concrete template, identifier leaves -> atoms)",
                 "fcp.parser.open (in-memory files)", "fcp.parser.str (identity on atoms)"]
    rep.assumptions = ["visible-before-use sets per reference are written in the template from the property text "
                       "(same file earlier, or a module imported earlier)",
                       "f-string rendering of an atom yields a unique marker that is searched in the error chain"]
    from ..common import seed
    templates = list(C08_TEMPLATES) + (generated_templates(tier, seed()) if tier == "thorough" else [])
    rep.bounds["templates"] = [t["name"] for t in templates]
    for r in pmap(c08_case, [(t, tier) for t in templates]):
        rep.merge(r)
        if rep.red_enough():
            break
    if rep.vacuity.get("ok_paths", 0) == 0 or rep.vacuity.get("err_paths", 0) == 0:
        rep.inconclusive.append(f"vacuity: need both Ok and Err paths, got {rep.vacuity}")
    return rep.finish()


# ---------------------------------------------------------------- C20
def deep_eq(a, b):
    """Structural equality of two result trees as a z3 Bool (meta ignored; atoms by solver equality)."""
    ta, tb = type(a), type(b)
    if ta in (SymAtom,) or tb in (SymAtom,):
        if (ta is SymAtom or ta is str) and (tb is SymAtom or tb is str):
            ea = a.e if ta is SymAtom else AtomSpace.cur.const(a)
            eb = b.e if tb is SymAtom else AtomSpace.cur.const(b)
            return ea == eb
        return z3.BoolVal(False)
    if ta is SymInt or tb is SymInt:
        return z3of(a) == z3of(b)
    if isinstance(a, (list, tuple)) and isinstance(b, (list, tuple)):
        if len(a) != len(b):
            return z3.BoolVal(False)
        return z3.And(*[deep_eq(x, y) for x, y in zip(a, b)]) if a else z3.BoolVal(True)
    if isinstance(a, dict) and isinstance(b, dict):
        if len(a) != len(b):
            return z3.BoolVal(False)
        ka, kb = list(a.items()), list(b.items())
        return z3.And(*[z3.And(deep_eq(x[0], y[0]), deep_eq(x[1], y[1])) for x, y in zip(ka, kb)]) if ka else z3.BoolVal(True)
    if ta is not tb:
        return z3.BoolVal(False)
    if hasattr(a, "__dict__") and not isinstance(a, (str, int, float)):
        da = {k: v for k, v in vars(a).items() if k != "meta"}
        db = {k: v for k, v in vars(b).items() if k != "meta"}
        if set(da) != set(db):
            return z3.BoolVal(False)
        return z3.And(*[deep_eq(da[k], db[k]) for k in da]) if da else z3.BoolVal(True)
    return z3.BoolVal(a == b)


def multiset_eq(xs, ys):
    if len(xs) != len(ys):
        return z3.BoolVal(False)
    if not xs:
        return z3.BoolVal(True)
    if len(xs) > 6:
        raise EngineLimit("multiset comparison of more than 6 elements")
    alts = []
    for perm in itertools.permutations(range(len(ys))):
        alts.append(z3.And(*[deep_eq(x, ys[j]) for x, j in zip(xs, perm)]))
    return z3.Or(*alts)


SINGLE = dict(
    enum1="enum N1 { A = 0, B = 1, }\n",
    struct2="struct N2 { a @0: u8, b @1: R1, }\n",
    impl2='impl can for N2 {\n    id: 16,\n    bus: "b1",\n    signal a {\n        mux_count: 2,\n    },\n}\n',
    struct3="struct N3 { c @0: [R2, 2], d @1: Optional[R3], }\n",
    impl3="impl can for N3 as N6 {\n    id: 17,\n}\n",
    svc="service N4 @1 {\n    method N7(N2) @0 returns N3,\n}\n",
    dev="device N5 {\n    services: [N4],\n}\n",
    struct8="struct N8 { e @0: R4, }\n",
)
ORDER = ["enum1", "struct2", "impl2", "struct3", "impl3", "svc", "dev", "struct8"]

# splitting plans: which consecutive blocks go to which module file; `mod` goes where the block was
PLANS = [
    dict(name="enum_to_module", blocks=[(["enum1"], "m")]),
    dict(name="struct_and_binding", blocks=[(["enum1", "struct2", "impl2"], "m")]),
    dict(name="service_and_device", blocks=[(["svc", "dev"], "m")]),
    dict(name="dotted_depth2", blocks=[(["enum1", "struct2", "impl2"], "a.b")]),
    dict(name="two_modules", blocks=[(["enum1"], "m"), (["impl3", "svc", "dev"], "x.y")]),
    dict(name="dotted_then_flat", blocks=[(["enum1"], "a.b"), (["svc"], "m"), (["dev"], "z")]),
    dict(name="dotted_then_dotted", blocks=[(["enum1"], "a.b"), (["impl3", "svc"], "c.d"), (["dev"], "z")]),
    dict(name="same_basename", blocks=[(["enum1"], "a.t"), (["svc"], "b.t"), (["dev"], "c.d.t")]),
    dict(name="binding_alone", blocks=[(["impl2"], "m"), (["impl3"], "n.o")]),
    dict(name="nested", blocks=[(["enum1", "struct2"], "a.b")], nested={"a.b": (["enum1"], "c")}),
    dict(name="depth3", blocks=[(["enum1", "struct2", "impl2", "struct3"], "a.b.c")]),
    # module files that begin with comments / blank lines before their version line (the grammar ignores both anywhere)
    dict(name="comment_header", blocks=[(["enum1", "struct2", "impl2"], "m"), (["svc"], "x.y")],
         header="// front axle sensors\n/* kept by hand,\n   do not regenerate */\n\n"),
    dict(name="comment_header_nested", blocks=[(["enum1", "struct2"], "a.b")], nested={"a.b": (["enum1"], "c")},
         header="\n\n// header\n"),
    # hierarchical layouts: a module file next to a directory of the same name (a.fcp and a/...)
    dict(name="tree", blocks=[(["enum1", "struct2"], "a")], nested={"a": (["enum1"], "a.c")}),
    dict(name="file_and_directory_same_name", blocks=[(["enum1"], "a"), (["svc"], "a.b"), (["dev"], "a.b.c")]),
    dict(name="everything_but_last", blocks=[(["enum1", "struct2", "impl2", "struct3", "impl3", "svc", "dev"], "all")]),
]


def generated_plans():
    """Thorough tier: every self-contained contiguous block x module path depth 1..3, and pairs of disjoint blocks."""
    blocks = [["enum1"], ["enum1", "struct2"], ["enum1", "struct2", "impl2"], ["enum1", "struct2", "impl2", "struct3"],
              ["enum1", "struct2", "impl2", "struct3", "impl3"], ["impl2"], ["impl3"], ["svc"], ["dev"], ["svc", "dev"],
              ["impl3", "svc"], ["impl2", "impl3"] if False else ["impl3", "svc", "dev"]]
    paths = ["m", "a.b", "a.b.c"]
    out = []
    for bi, b in enumerate(blocks):
        for pi, p in enumerate(paths):
            out.append(dict(name=f"gen_{'+'.join(b)}_in_{p}", blocks=[(b, p)]))
    pairs = [(["enum1"], ["svc"]), (["enum1", "struct2"], ["impl3", "svc"]), (["enum1"], ["dev"]), (["impl2"], ["svc", "dev"])]
    for (b1, b2) in pairs:
        for p1, p2 in (("x", "y"), ("p.q", "r"), ("r", "p.q"), ("d.t", "e.t")):
            out.append(dict(name=f"gen_{'+'.join(b1)}_in_{p1}__{'+'.join(b2)}_in_{p2}", blocks=[(b1, p1), (b2, p2)]))
    return out


def build_split(plan):
    """-> (files for the split schema, files for the single-file schema)."""
    single = {"main.fcp": V3 + "".join(SINGLE[k] for k in ORDER)}
    files = {}
    moved = {}
    for keys, mod in plan["blocks"]:
        for k in keys:
            moved[k] = mod
    main = V3
    done = set()
    for k in ORDER:
        if k in moved:
            mod = moved[k]
            if mod not in done:
                done.add(mod)
                main += f"mod {mod};\n"
            continue
        main += SINGLE[k]
    files["main.fcp"] = main
    for keys, mod in plan["blocks"]:
        path = mod.replace(".", "/") + ".fcp"
        body = V3
        nested = plan.get("nested", {}).get(mod)
        ndone = False
        for k in keys:
            if nested and k in nested[0]:
                if not ndone:
                    ndone = True
                    body += f"mod {nested[1]};\n"
                    npath = str(pathlib.PurePosixPath(path).parent / (nested[1].replace(".", "/") + ".fcp"))
                    files[npath] = plan.get("header", "") + V3 + "".join(SINGLE[x] for x in nested[0])
                continue
            body += SINGLE[k]
        files[path] = plan.get("header", "") + body
    return files, single


_DECL = re.compile(r"^(?:enum|struct)\s+(N\d+)", re.M)
_MOD = re.compile(r"^mod\s+([\w.]+);", re.M)
_REF = re.compile(r"\bR\d+\b")


def _self_contained(Wd, files):
    def visible(path, seen=()):
        text = files[path]
        out = set(_DECL.findall(text))
        for mod in _MOD.findall(text):
            sub = str(pathlib.PurePosixPath(path).parent / (mod.replace(".", "/") + ".fcp"))
            if sub in files and sub not in seen:
                out |= visible(sub, seen + (path,))
        return out

    alld = set()
    for t in files.values():
        alld |= set(_DECL.findall(t))
    cs = []
    for path, text in files.items():
        if path == "main.fcp":
            continue
        outside = alld - visible(path)
        for r in set(_REF.findall(text)):
            for d in outside:
                cs.append(Wd.E(r) != Wd.E(d))
    return cs


def c20_case(args):
    plan, tier = args
    res = new_result()
    known = Known("C20")
    split_files, single_files = build_split(plan)
    feats = {"desc": plan["name"], "plan": plan["name"]}
    cov = Coverage()
    decl_names = ["N1", "N2", "N3", "N4", "N5", "N6", "N7", "N8"]
    outs = {}
    eng = Engine(timeout_ms=240000 if tier == "quick" else 600000, max_paths=20000)
    Wd = World(split_files)
    Wd.prescan()
    # the single-file text goes into the same world (same atoms) under another root file name
    Wd.write("single.fcp", single_files["main.fcp"])
    Wd.subst(Wd.real_parser.parse(single_files["main.fcp"]))
    Wd.prime_decoy()
    assume = Wd.distinct_decls([d for d in decl_names if d in Wd.atoms])
    # precondition of the property: the moved subset respects declare-before-use, i.e. a reference inside a module
    # file does not name a declaration that only exists outside that file and the files it imports
    assume += _self_contained(Wd, split_files)

    def body():
        a = Wd.run("main.fcp")
        b = Wd.run("single.fcp")
        return a, b

    def mk(m):
        names = {k: a.realize(m) for k, a in Wd.atoms.items()}
        return {"kind": "parser_split", "split_files": split_files, "single_text": single_files["main.fcp"],
                "names": names, "plan": plan["name"]}

    try:
        with cov:
            paths = list(eng.explore(body, assume))
        for pi, (kind, out, pc) in enumerate(paths):
            ob = f"{plan['name']}|path{pi}"
            pcx = pc + Wd.space.constraints()
            if kind == "exc":
                decide(eng, pcx, z3.BoolVal(True), prop="C20", ob_id=ob + "|total", res=res, known=known,
                       features=feats, env={}, make_replay=mk,
                       what=f"parsing raised {type(out).__name__}: {str(out)[:120]} on plan {plan['name']}")
                continue
            a, b = out
            if a.is_ok() != b.is_ok():
                decide(eng, pcx, z3.BoolVal(True), prop="C20", ob_id=ob + "|same-verdict", res=res, known=known,
                       features=feats, env={}, make_replay=mk,
                       what=f"split schema is {'accepted' if a.is_ok() else 'rejected'} but the single-file schema is "
                            f"{'accepted' if b.is_ok() else 'rejected'} ({plan['name']})")
                continue
            if not a.is_ok():
                res["obligations"].append(ob + "|same-verdict")
                res["discharged"] += 1
                continue
            fa, fb = a.unwrap(), b.unwrap()
            cs = []
            for cat in ("structs", "enums", "impls", "services", "devices"):
                cs.append(multiset_eq(getattr(fa, cat), getattr(fb, cat)))
            decide(eng, pcx, z3.Not(z3.And(*cs)), prop="C20", ob_id=ob + "|same-declarations", res=res, known=known,
                   features=feats, env={}, make_replay=mk,
                   what=f"split schema differs from the single-file schema: "
                        f"{ {c: (len(getattr(fa, c)), len(getattr(fb, c))) for c in ('structs', 'enums', 'impls', 'services', 'devices')} } "
                        f"(split, single) on plan {plan['name']}")
        okp = sum(1 for k, o, _ in paths if k == "ret" and o[1].is_ok())
        res["vacuity"] = {"ok_paths": okp}
        if okp == 0:
            res["inconclusive"].append(f"{plan['name']}: vacuous plan - the single-file schema is never accepted")
    except EngineLimit as e:
        res["inconclusive"].append(f"{plan['name']}: engine limit: {e}")
    finish_engine(res, eng)
    res["functions"] = sorted(cov.seen)
    res["sample"] = {"plan": plan["name"], "split_files": split_files, "paths": res["paths"], "queries": res["queries"]}
    return res


ERROR_CASES = [
    dict(name="unresolved_in_module", kind="resolve",
         files={"main.fcp": V3 + "mod m;\nstruct N2 { a @0: u8, }\n", "m.fcp": V3 + "struct N1 { b @0: R1, }\n"},
         module="m.fcp"),
    dict(name="unresolved_in_nested_module", kind="resolve",
         files={"main.fcp": V3 + "mod a.b;\n", "a/b.fcp": V3 + "mod c;\nstruct N1 { b @0: u8, }\n",
                "a/c.fcp": V3 + "struct N2 { b @0: R1, }\n"}, module="c.fcp"),
    dict(name="missing_file", kind="missing",
         files={"main.fcp": V3 + "struct N1 { a @0: u8, }\nmod gone;\n"}, module="gone.fcp"),
    dict(name="missing_nested_file", kind="missing",
         files={"main.fcp": V3 + "mod a.b;\n", "a/b.fcp": V3 + "mod nothere;\nstruct N1 { b @0: u8, }\n"},
         module="nothere.fcp"),
]
_GOOD_MODULE = V3 + "enum N1 { A = 0, }\nstruct N2 { b @0: N1, }\n"


def syntax_error_cases(tier):
    out = []
    text = _GOOD_MODULE
    cuts = sorted(set(range(len(V3) + 3, len(text) - 1, 7 if tier == "quick" else 3)))
    for c in cuts:
        out.append(dict(name=f"truncated_at_{c}", kind="syntax",
                        files={"main.fcp": V3 + "mod m;\nstruct N3 { a @0: u8, }\n", "m.fcp": text[:c]}, module="m.fcp"))
    for c in cuts[::2]:
        out.append(dict(name=f"illegal_char_at_{c}", kind="syntax",
                        files={"main.fcp": V3 + "mod m;\nstruct N3 { a @0: u8, }\n",
                               "m.fcp": text[:c] + "$" + text[c:]}, module="m.fcp"))
    return out


def _names_module(err, module):
    for msg, node, _ in err.msg:
        if module in str(msg):
            return True
        fn = getattr(getattr(node, "meta", None), "filename", None)
        if fn is not None and pathlib.PurePosixPath(str(fn)).name == module:
            return True
    return False


def c20_error_case(args):
    case, tier = args
    res = new_result()
    known = Known("C20")
    feats = {"desc": "error/" + case["name"], "error_kind": case["kind"]}
    Wd = World(case["files"])
    if case["kind"] == "syntax":
        # only cases where the real parser does reject the module text are error cases
        try:
            Wd.real_parser.parse(case["files"]["m.fcp"])
            return res
        except Exception:
            pass
    Wd.prescan()
    assume = Wd.distinct_decls([d for d in Wd.atoms if d.startswith("N")])
    cov = Coverage()
    eng = Engine(timeout_ms=240000, max_paths=2000)

    def mk(m):
        names = {k: a.realize(m) for k, a in Wd.atoms.items()}
        return {"kind": "parser_import_error", "files": case["files"], "names": names, "module": case["module"],
                "error_kind": case["kind"]}

    try:
        with cov:
            paths = list(eng.explore(Wd.run, assume))
        for pi, (kind, out, pc) in enumerate(paths):
            ob = f"error/{case['name']}|path{pi}"
            pcx = pc + Wd.space.constraints()
            if kind == "exc":
                decide(eng, pcx, z3.BoolVal(True), prop="C20", ob_id=ob, res=res, known=known, features=feats, env={},
                       make_replay=mk, what=f"import raised {type(out).__name__}: {str(out)[:100]} ({case['name']})")
                continue
            if case["kind"] == "resolve" and out.is_ok():
                # R1 may coincide with a declaration visible inside the module: then there is no error to report
                res["obligations"].append(ob)
                res["discharged"] += 1
                continue
            bad = out.is_ok() or not _names_module(out.err(), case["module"])
            if bad:
                decide(eng, pcx, z3.BoolVal(True), prop="C20", ob_id=ob, res=res, known=known, features=feats, env={},
                       make_replay=mk,
                       what=(f"{case['kind']} error inside module {case['module']} " +
                             ("was not reported (Ok returned)" if out.is_ok() else
                              f"is reported without naming the module: {[str(m_[0])[:60] for m_ in out.err().msg]}")))
            else:
                res["obligations"].append(ob)
                res["discharged"] += 1
    except EngineLimit as e:
        res["inconclusive"].append(f"error/{case['name']}: engine limit: {e}")
    finish_engine(res, eng)
    res["functions"] = sorted(cov.seen)
    res["sample"] = {"error_case": case["name"], "files": case["files"], "paths": res["paths"]}
    return res


def c20_merge_case(args):
    """FcpV2.merge in isolation: opaque elements, list lengths 0..2: every category is importer ++ imported."""
    la, lb, tier = args
    add_repo_paths()
    from fcp.specs.v2 import FcpV2

    res = new_result()
    cats = ("structs", "enums", "impls", "services", "devices")
    a, b = FcpV2(), FcpV2()
    marks = {}
    for ci, c in enumerate(cats):
        xa = [object() for _ in range(la[ci])]
        xb = [object() for _ in range(lb[ci])]
        a.__dict__[c] = list(xa)
        b.__dict__[c] = list(xb)
        marks[c] = xa + xb
    a.merge(b)
    bad = [c for c in cats if len(getattr(a, c)) != len(marks[c]) or any(x is not y for x, y in zip(getattr(a, c), marks[c]))]
    ob = f"merge|{la}|{lb}"
    res["obligations"].append(ob)
    if bad:
        from ..common import write_replay, run_replay
        path = write_replay("C20", {"kind": "merge", "la": list(la), "lb": list(lb), "property": "C20"})
        ok, text = run_replay(path)
        if ok:
            res["violations"].append({"replay": path, "ob": ob,
                                      "what": f"FcpV2.merge loses or reorders {bad} for list lengths {la} + {lb}: {text[-150:]}"})
        else:
            res["unconfirmed"].append(f"{ob}: merge mismatch did not replay")
    else:
        res["discharged"] += 1
    return res


def _c20_dispatch(args):
    return {"plan": c20_case, "error": c20_error_case, "merge": c20_merge_case}[args[0]](args[1:])


def run_c20(tier: str) -> int:
    rep = Report("C20", tier)
    plans = list(PLANS) + (generated_plans() if tier == "thorough" else [])
    cases = [("plan", p, tier) for p in plans]
    errs = ERROR_CASES + syntax_error_cases(tier)
    cases += [("error", e, tier) for e in errs]
    lens = [(0,) * 5, (1,) * 5, (2, 0, 1, 2, 0), (0, 2, 2, 0, 1), (2, 2, 2, 2, 2)]
    cases += [("merge", la, lb, tier) for la in lens for lb in lens]
    rep.bounds = {
        "template": "one schema with every declaration kind (enum, 3 structs, 2 bindings incl. 'as' rename and a signal "
                    "block, service with method, device) whose type names and references are atoms",
        "plans": [p["name"] for p in plans],
        "errors": [e["name"] for e in ERROR_CASES] + [f"{len(errs) - len(ERROR_CASES)} syntax-error positions"],
        "merge": "list lengths 0..2 per category, opaque elements",
        "outside": "the real file system; module names are concrete identifiers",
    }
    rep.stubs = ["fcp.parser.fcp_parser", "fcp.parser.open", "fcp.parser.str"]
    rep.assumptions = ["declared names pairwise distinct", "result categories compared as multisets (order not demanded)",
                       "an error 'names the module' if the module file name occurs in a message of the chain or in the "
                       "file name of a node attached to the chain (what Logger.error renders)"]
    for r in pmap(_c20_dispatch, cases):
        rep.merge(r)
        if rep.red_enough():
            break
    if rep.vacuity.get("ok_paths", 0) == 0:
        rep.inconclusive.append("vacuity: no path on which both the split and the single-file schema are accepted")
    return rep.finish()
