"""C10: GeneratorManager.generate is gated by verification (real control flow, stub plug-in, recording FS model)."""
from __future__ import annotations

import os
import shutil
import sys
import tempfile

import z3

from ..common import Known, Report, pmap, add_repo_paths, VERIF
from ..decide import decide, new_result, finish_engine
from ..fromfcp import parse
from ..pysym import Engine, EngineLimit, SymBool, SymAtom, SymText, AtomSpace, Coverage

SCHEMA = '''version: "3"
enum E { A = 0, B = 1, }
struct S1 { a @0: u8, b @1: E, }
struct S2 { c @0: u16, }
impl can for S1 {
    id: 10,
    signal a {
        mux_count: 2,
    },
}
service Svc @1 {
    method m(S1) @0 returns S2,
}
device D {
    services: [Svc],
}
'''


# nodes per verifier category in SCHEMA (2 structs, 3 fields, 1 enum, 2 default + 1 CAN binding, 1 signal block,
# 3 types, 1 device)
NODES = {"struct": 2, "field": 3, "enum": 1, "impl": 3, "signal_block": 1, "type": 3, "device": 1}


class RecFS:
    """Recording file-system model: every mutation attempted through fcp.codegen is logged."""

    def __init__(self):
        self.ops = []


class _Stat:
    def __init__(self, size):
        self.st_size = size
        self.st_mtime = 0


def _label(p):
    return str(p).replace("⟦", "").replace("⟧", "")


class RecPath:
    fs: RecFS = None
    pre = {}     # symbolic pre-existing state of the output directory, per path label

    def __init__(self, p):
        self.p = p.p if isinstance(p, RecPath) else p

    def _pre(self):
        k = _label(self.p)
        if k not in RecPath.pre:
            from ..pysym import SymInt
            size, c = SymInt.fresh(f"pre_size_{k}", 0, 1 << 20)
            RecPath.pre[k] = {"exists": z3.Bool(f"pre_exists_{k}"), "size": size, "size_c": c,
                              "text": SymAtom(f"pre_text_{k}")}
        return RecPath.pre[k]

    def exists(self):
        return SymBool(self._pre()["exists"])

    def is_file(self):
        return SymBool(self._pre()["exists"])

    def stat(self):
        pr = self._pre()
        from ..pysym import Engine
        Engine.cur.assume(pr["size_c"])
        if not SymBool(pr["exists"]):
            raise FileNotFoundError(2, "No such file or directory")
        return _Stat(pr["size"])

    def read_text(self, *a, **k):
        pr = self._pre()
        if not SymBool(pr["exists"]):
            raise FileNotFoundError(2, "No such file or directory")
        return pr["text"]

    @property
    def parent(self):
        return RecPath(("parent-of", self.p))

    def mkdir(self, *a, **k):
        RecPath.fs.ops.append(("mkdir", self.p))

    def write_text(self, text, *a, **k):
        RecPath.fs.ops.append(("write", self.p, text))

    def write_bytes(self, data):
        RecPath.fs.ops.append(("write", self.p, data))

    def unlink(self, *a, **k):
        RecPath.fs.ops.append(("unlink", self.p))

    def __truediv__(self, o):
        return RecPath(("join", self.p, o))

    def open(self, mode="r", *a, **k):
        if isinstance(mode, str) and mode.replace("t", "").replace("b", "") in ("w", "x"):
            return RecFile(self.p)
        RecPath.fs.ops.append(("open", self.p, (mode,) + a))
        raise OSError("open through the recording model")

    def __fspath__(self):
        RecPath.fs.ops.append(("fspath", self.p))
        raise OSError("real file-system access through the recording model")


class RecFile:
    """A file opened for writing through the model: the write is recorded when the file is closed (one write() call is
    the common case; several are recorded as a tuple of pieces, which no expectation matches)."""

    def __init__(self, p):
        self.p, self.parts, self.closed = p, [], False

    def write(self, text):
        self.parts.append(text)
        return 0

    def close(self):
        if not self.closed:
            self.closed = True
            RecPath.fs.ops.append(("write", self.p, self.parts[0] if len(self.parts) == 1 else tuple(self.parts)))

    def __enter__(self):
        return self

    def __exit__(self, *a):
        self.close()
        return False


class RecPathlib:
    Path = RecPath


class RecOS:
    def __getattr__(self, n):
        def f(*a, **k):
            RecPath.fs.ops.append(("os." + n, a))
            if n == "listdir":
                return []
            return None
        return f


_LEN = {}


def _sym_len(x):
    """len() inside fcp.codegen: the length of an opaque contents/path atom is an unconstrained symbolic size."""
    if type(x) is SymAtom:
        from ..pysym import SymInt, Engine
        if x.label not in _LEN:
            _LEN[x.label] = SymInt.fresh(f"len_{x.label}", 0, 1 << 20)
        v, c = _LEN[x.label]
        Engine.cur.assume(c)
        return v
    return len(x)


def _setup():
    add_repo_paths()
    stubs = os.path.join(VERIF, "verif", "stubs")
    if stubs not in sys.path:
        sys.path.insert(0, stubs)
    from fcp import codegen

    codegen.Path = RecPath
    codegen.pathlib = RecPathlib
    codegen.os = RecOS()
    codegen.print = lambda *a, **k: RecPath.fs.ops.append(("print", a))
    codegen.str = lambda x="": x if type(x) in (SymAtom, SymText) else str(x)
    codegen.len = _sym_len
    codegen.open = lambda p_, mode="r", *a, **k: RecPath(p_).open(mode, *a, **k)
    import logging
    logging.getLogger().setLevel(logging.CRITICAL)
    return codegen


class _CliOutcome:
    """What the generate command lets its caller observe: it returns nothing; an error is reported by printing it."""

    def __init__(self, printed):
        self.printed = printed

    def is_err(self):
        return bool(self.printed)

    def is_ok(self):
        return not self.printed

    def __repr__(self):
        return f"<generate command printed {len(self.printed)} message(s)>"


CATEGORY_SETS = {
    "one_per_category": ["struct", "field", "enum", "impl", "signal_block", "type", "device"],
    "several_per_category": ["impl", "impl", "struct", "type", "type", "field"],
    "late_only": ["device"],
    "none": [],
}


def _schema_file():
    """SCHEMA as a real file (the CLI entry parses its argument with the real get_fcp)."""
    d = tempfile.mkdtemp(prefix="verif_c10_src_")
    p = os.path.join(d, "main.fcp")
    with open(p, "w") as f:
        f.write(SCHEMA)
    return d, p


def c10_case(args):
    setname, nrecords, history, tier = args[:4]
    entry = args[4] if len(args) > 4 else "manager"
    codegen = _setup()
    import fcp_vstub
    from fcp.verifier import make_general_verifier

    res = new_result()
    known = Known("C10")
    fcp = parse(SCHEMA)
    cats = CATEGORY_SETS[setname]
    feats = {"desc": f"{setname}/records{nrecords}" + ({0: "", 1: "/after-an-accepted-generation",
                                                        2: "/after-a-generation-by-another-manager",
                                                        3: "/after-a-rejected-generation"}[int(history)])
             + ("/through-the-generate-command" if entry == "cli" else ""),
             "checks": cats}
    srcdir = schema_path = None
    printed = []
    if entry == "cli":
        # the command body of `fcp generate` (fcp.__main__.generate_cmd.callback): real get_fcp on a real file, then
        # the same manager; its only observable besides the file system is what it prints
        srcdir, schema_path = _schema_file()
        from fcp import __main__ as cli
        cli.print = lambda *a, **k: printed.append(a)
    RecPath.pre = {}
    _LEN.clear()
    space = AtomSpace()
    for s in ("file", "print"):
        space.const(s)
    verdicts = {}
    recs = []
    for i in range(nrecords):
        recs.append({"type": SymAtom(f"type{i}") if i % 2 == 0 else "file", "path": SymAtom(f"path{i}"),
                     "contents": SymAtom(f"contents{i}")})
    cov = Coverage()
    eng = Engine(timeout_ms=240000, max_paths=20000)

    def verdict(ci, category, k):
        key = (ci, k)
        if key not in verdicts:
            verdicts[key] = z3.Bool(f"ok_{ci}_{category}_{k}")
        return SymBool(verdicts[key])

    def body():
        fs = RecFS()
        RecPath.fs = fs
        gm = codegen.GeneratorManager(make_general_verifier())
        if history == 2:
            # an earlier accepted generation through ANOTHER manager/verifier pair of the same process (what a
            # long-lived tool or two CLI-style calls in one interpreter do)
            fcp_vstub.CONFIG.update({"checks": [], "records": [], "verdict": verdict, "calls": []})
            first = codegen.GeneratorManager(make_general_verifier()).generate("vstub", None, None, fcp, "outdir")
            if not (hasattr(first, "is_ok") and first.is_ok()):
                raise EngineLimit(f"history prefix was not accepted: {first!r}")
            fs.ops.clear()
        elif history == 3:
            # an earlier generation of the same schema through the same manager that a check REJECTED (a retry after a
            # failure): whatever the aborted verification left behind must not weaken the next one
            fcp_vstub.CONFIG.update({"checks": ["struct", "impl"], "records": [], "verdict": lambda ci, cat, k: k == 0 and ci == 0,
                                     "calls": []})
            first = gm.generate("vstub", None, None, fcp, "outdir")
            if not (hasattr(first, "is_err") and first.is_err()) or fs.ops:
                raise EngineLimit(f"history prefix was not rejected cleanly: {first!r} {fs.ops[:2]}")
            fs.ops.clear()
        elif history:
            # an earlier, accepted generation of the same schema object through the same manager (a plug-in
            # without checks): the later call must still consult the checks registered for it
            fcp_vstub.CONFIG.update({"checks": [], "records": [], "verdict": verdict, "calls": []})
            first = gm.generate("vstub", None, None, fcp, "outdir")
            if not (hasattr(first, "is_ok") and first.is_ok()):
                raise EngineLimit(f"history prefix was not accepted: {first!r}")
            fs.ops.clear()
        fcp_vstub.CONFIG.update({"checks": cats, "records": recs, "verdict": verdict, "calls": [],
                                 "epoch": fcp_vstub.CONFIG.get("epoch", 0) + 1})
        if entry == "cli":
            del printed[:]
            outdir = os.path.join(srcdir, "out")
            shutil.rmtree(outdir, ignore_errors=True)
            os.makedirs(outdir)
            with open(os.path.join(outdir, "keep.txt"), "w") as f:
                f.write("pre-existing")
            cli.generate_cmd.callback("vstub", schema_path, outdir, None, None)
            out = _CliOutcome(list(printed))
            # anything the command body did to the files of the real output directory on its own (not through
            # fcp.codegen, whose file-system names are the recording model) shows here
            real = _snapshot(srcdir)
            if sorted(real) != ["main.fcp", "out/keep.txt"] or real["out/keep.txt"] != b"pre-existing":
                fs.ops.append(("real-file-system", tuple(sorted(real))))
        else:
            out = gm.generate("vstub", None, None, fcp, "outdir")
        return out, list(fs.ops), list(fcp_vstub.CONFIG["calls"])

    def mk(m):
        vs = {f"{k[0]}/{k[1]}": bool(z3.is_true(m.eval(v, model_completion=True))) for k, v in verdicts.items()}
        types = [r["type"].realize(m) if type(r["type"]) is SymAtom else r["type"] for r in recs]
        pre = []
        for r in recs:
            pr = RecPath.pre.get(_label(r["path"]))
            ln = _LEN.get(r["contents"].label)
            if pr is None:
                pre.append(None)
            else:
                ex = bool(z3.is_true(m.eval(pr["exists"], model_completion=True)))
                same = ln is not None and m.eval(pr["size"].e == ln[0].e, model_completion=True)
                pre.append({"exists": ex, "same_size": bool(z3.is_true(same)) if ln is not None else False})
        return {"kind": "gating", "checks": cats, "verdicts": vs, "record_types": types, "history": history,
                "pre_existing": pre, "entry": entry}

    try:
        with cov:
            paths = list(eng.explore(body, []))
        for pi, (kind, out, pc) in enumerate(paths):
            ob = f"{feats['desc']}|path{pi}"
            pcx = pc + space.constraints()
            if kind == "exc":
                decide(eng, pcx, z3.BoolVal(True), prop="C10", ob_id=ob, res=res, known=known, features=feats, env={},
                       make_replay=mk, what=f"generate raised {type(out).__name__}: {str(out)[:100]} ({feats['desc']})")
                continue
            result, ops, calls = out
            called = [c for c in calls if c != "generate"]
            all_ok = z3.And(*[verdicts[c] for c in called]) if called else z3.BoolVal(True)
            some_rejected = z3.Or(*[z3.Not(verdicts[c]) for c in called]) if called else z3.BoolVal(False)
            is_err = hasattr(result, "is_err") and result.is_err()
            is_ok = hasattr(result, "is_ok") and result.is_ok()
            mutations = [o for o in ops if o[0] != "print"]
            # (1) a rejecting check => error reported, nothing touched, generator not run
            bad1 = z3.And(some_rejected, z3.BoolVal(not is_err or bool(mutations) or "generate" in calls))
            decide(eng, pcx, bad1, prop="C10", ob_id=ob + "|rejected=>nothing-written", res=res, known=known,
                   features=feats, env={}, make_replay=mk,
                   what=f"a check rejected the schema but result={type(result).__name__} ops={ops[:3]} ({feats['desc']})")
            # (1b) accepted => every registered check was asked about every node of its category
            if "generate" in calls:
                expected = {(ci, k) for ci, cat in enumerate(cats) for k in range(NODES[cat])}
                res["obligations"].append(ob + "|all-checks-consulted")
                if set(called) != expected:
                    decide(eng, pcx, z3.BoolVal(True), prop="C10", ob_id=ob + "|all-checks-consulted", res=res,
                           known=known, features=feats, env={}, make_replay=lambda m: dict(mk(m), missing=sorted(
                               f"{a}/{b}" for a, b in expected - set(called))),
                           what=f"generation went ahead although registered checks were never consulted: "
                                f"{sorted(expected - set(called))[:4]} ({feats['desc']})")
                    res["obligations"].pop()
                else:
                    res["discharged"] += 1
            # (2) all checks pass => Ok and exactly the returned file records are written, with their contents
            exp_writes = []
            for r in recs:
                exp_writes.append((r["type"], r["path"], r["contents"]))
            writes = [o for o in ops if o[0] == "write"]
            others = [o for o in ops if o[0] not in ("write", "mkdir", "print")]
            conds = [z3.BoolVal(is_ok), z3.BoolVal(not others)]
            wi = 0
            ok_struct = True
            for (t, p, c) in exp_writes:
                is_file = (t.e == space.const("file")) if type(t) is SymAtom else z3.BoolVal(t == "file")
                # on this path the code already decided (forked on) whether the record is a file: read it off the ops
                if wi < len(writes) and writes[wi][1] is p:
                    conds.append(is_file)
                    conds.append(z3.BoolVal(writes[wi][2] is c))
                    wi += 1
                else:
                    conds.append(z3.Not(is_file))
            if wi != len(writes):
                ok_struct = False
            bad2 = z3.And(all_ok, z3.Not(z3.And(z3.BoolVal(ok_struct), *conds)))
            decide(eng, pcx, bad2, prop="C10", ob_id=ob + "|accepted=>exact-files", res=res, known=known,
                   features=feats, env={}, make_replay=mk,
                   what=f"all checks passed but result={type(result).__name__}, writes={[(str(w[1]), str(w[2])) for w in writes]} "
                        f"for records {[(str(a), str(b)) for a, b, _ in exp_writes]} ({feats['desc']})")
        res["vacuity"] = {"accept_paths": sum(1 for k, o, _ in paths if k == "ret" and "generate" in o[2]),
                          "reject_paths": sum(1 for k, o, _ in paths if k == "ret" and "generate" not in o[2])}
    except EngineLimit as e:
        res["inconclusive"].append(f"{feats['desc']}: engine limit: {e}")
    finally:
        if srcdir:
            shutil.rmtree(srcdir, ignore_errors=True)
    finish_engine(res, eng)
    res["functions"] = sorted(cov.seen)
    res["sample"] = {"checks": cats, "entry": entry, "records": nrecords, "paths": res["paths"], "queries": res["queries"],
                     "symbolic_verdicts": len(verdicts)}
    return res


# ---------------------------------------------------------------- the real plug-ins, concretely (stub conformance)
REAL_CASES = [
    ("dbc", 'version: "3"\nstruct A { x @0: u8, }\nimpl can for A {\n    id: 10,\n}\n', True),
    ("dbc", 'version: "3"\nstruct A { x @0: u8, }\nstruct B { x @0: u8, }\nimpl can for A {\n    id: 10,\n}\nimpl can for B {\n    id: 10,\n}\n', False),
    ("dbc", 'version: "3"\nstruct A { x @0: u8, x @1: u8, }\nimpl can for A {\n    id: 10,\n}\n', False),
    ("can_c", 'version: "3"\nstruct A { x @0: u8, }\nimpl can for A {\n    id: 10,\n    device: "ecu",\n}\n', True),
    ("can_c", 'version: "3"\nstruct A { x @0: u64, y @1: u8, }\nimpl can for A {\n    id: 10,\n    device: "ecu",\n}\n', False),
    ("can_c", 'version: "3"\nstruct A { x @0: u8, }\nenum A { P = 0, }\nimpl can for A {\n    id: 10,\n}\n', False),
    ("nop", 'version: "3"\nstruct A { x @0: u8, }\n', True),
    ("nop", 'version: "3"\nenum E { P = 0, P = 1, }\nstruct A { x @0: u8, }\n', False),
    ("cpp", 'version: "3"\nstruct A { x @0: u8, }\n', True),
    ("cpp", 'version: "3"\nenum E { P = 0, Q = 0, }\nstruct A { x @0: u8, }\n', False),
]


def _snapshot(d):
    out = {}
    for root, _, files in os.walk(d):
        for f in files:
            p = os.path.join(root, f)
            out[os.path.relpath(p, d)] = open(p, "rb").read()
    return out


WARMUP = 'version: "3"\nstruct Warm { a @0: u8, }\nimpl can for Warm {\n    id: 1,\n    device: "ecu",\n}\n'


def real_cli_run(gen, text):
    """`python -m fcp generate <gen> <file> <dir>` as a user runs it: fresh process, real click, real everything."""
    import subprocess
    d = tempfile.mkdtemp(prefix="verif_c10_")
    src = tempfile.mkdtemp(prefix="verif_c10_src_")
    try:
        open(os.path.join(src, "main.fcp"), "w").write(text)
        open(os.path.join(d, "keep.txt"), "w").write("pre-existing")
        open(os.path.join(d, "old_can.h"), "w").write("stale header")
        before = _snapshot(d)
        env = dict(os.environ, PYTHONPATH=os.pathsep.join(p for p in sys.path if "/plugins/" in p or p.endswith("/src")))
        p = subprocess.run([sys.executable, "-m", "fcp", "generate", gen, os.path.join(src, "main.fcp"), d],
                           capture_output=True, text=True, timeout=300, env=env)
        after = _snapshot(d)
        said = (p.stdout + p.stderr).strip()
        return p, before, after, said
    finally:
        shutil.rmtree(d, ignore_errors=True)
        shutil.rmtree(src, ignore_errors=True)


def real_plugin_run(gen, text, expect_ok, warmup=False, warmup_text=None):
    """In a subprocess-free but unstubbed way: fresh import state is not needed because nothing is stubbed here."""
    import subprocess
    code = (
        "import sys, os, json\n"
        "sys.path[:0] = %r\n"
        "from fcp.parser import get_fcp_from_string\n"
        "from fcp.error import Logger\n"
        "from fcp.codegen import GeneratorManager\n"
        "from fcp.verifier import make_general_verifier\n"
        "for wtext in %r:\n"
        "    import tempfile, shutil\n"
        "    w = tempfile.mkdtemp(prefix='verif_warm_')\n"
        "    try:\n"
        "        GeneratorManager(make_general_verifier()).generate(%r, None, None, get_fcp_from_string(wtext, Logger({})).unwrap(), w)\n"
        "    except BaseException:\n"
        "        pass\n"
        "    shutil.rmtree(w, ignore_errors=True)\n"
        "fcp = get_fcp_from_string(%r, Logger({})).unwrap()\n"
        "r = GeneratorManager(make_general_verifier()).generate(%r, None, None, fcp, sys.argv[1])\n"
        "print(json.dumps({'ok': bool(getattr(r, 'is_ok', lambda: False)()), 'err': bool(getattr(r, 'is_err', lambda: False)())}))\n"
    ) % ([p for p in sys.path if "/plugins/" in p or p.endswith("/src")],
         ([WARMUP] + ([warmup_text] if warmup_text else [])) if warmup else [], gen, text, gen)
    d = tempfile.mkdtemp(prefix="verif_c10_")
    try:
        open(os.path.join(d, "keep.txt"), "w").write("pre-existing")
        open(os.path.join(d, "old_can.h"), "w").write("stale header")
        before = _snapshot(d)
        p = subprocess.run([sys.executable, "-c", code, d], capture_output=True, text=True, timeout=300)
        after = _snapshot(d)
        return p, before, after
    finally:
        shutil.rmtree(d, ignore_errors=True)


def c10_real_case(args):
    gen, text, expect_ok, tier = args[:4]
    entry = args[4] if len(args) > 4 else "manager"
    add_repo_paths()
    res = new_result()
    import zlib
    ob = f"real/{entry}/{gen}/{'accept' if expect_ok else 'reject'}/{zlib.crc32(text.encode()) % 10000}"
    res["obligations"].append(ob)
    if entry == "cli":
        p, before, after, said = real_cli_run(gen, text)
        # the command reports an error by printing it (exit status is 0 either way at this commit)
        st = {"ok": after != before or (gen == "nop" and "rror" not in said), "err": bool(said) and after == before,
              "said": said[-160:]}
        if not expect_ok and after == before and not said:
            st = {"ok": True, "err": False, "said": ""}       # silent acceptance of a rejected schema
    else:
        p, before, after = real_plugin_run(gen, text, expect_ok)
        last = (p.stdout.strip().splitlines() or ["{}"])[-1]
        try:
            import json
            st = json.loads(last)
        except Exception:
            st = {"ok": False, "err": False, "crash": p.stderr[-200:]}
    bad = None
    if not expect_ok:
        if before != after:
            bad = f"rejected schema but the output directory changed: {sorted(set(after) ^ set(before))[:4]}"
        elif st.get("ok"):
            bad = "rejected schema but generate returned Ok"
    else:
        if not st.get("ok"):
            bad = f"well-formed schema but generate did not return Ok: {st} {p.stderr[-200:]}"
        elif after == before and gen != "nop":
            bad = "well-formed schema, Ok returned, but nothing was written"
    if bad:
        from ..common import write_replay, run_replay
        path = write_replay("C10", {"kind": "gating_real", "generator": gen, "schema_text": text,
                                    "expect_ok": expect_ok, "property": "C10", "entry": entry})
        ok, t = run_replay(path)
        if ok:
            res["violations"].append({"replay": path, "ob": ob, "what": f"{gen}: {bad}"})
        else:
            res["unconfirmed"].append(f"{ob}: {bad} (did not replay: {t[-100:]})")
    else:
        res["discharged"] += 1
    res["sample"] = {"real_plugin": gen, "expect_ok": expect_ok, "result": st, "files_after": sorted(after)[:6]}
    return res


def _dispatch(args):
    if args[0] == "sym":
        return c10_case(args[1:])
    return c10_real_case(args[1:])


def run_c10(tier: str) -> int:
    rep = Report("C10", tier)
    cases = []
    for s in CATEGORY_SETS:
        for n in ((0, 2) if tier == "quick" else (0, 1, 2, 3)):
            cases.append(("sym", s, n, 0, tier))
    for s in ("one_per_category", "late_only"):
        cases.append(("sym", s, 1, 1, tier))
        cases.append(("sym", s, 1, 2, tier))
        cases.append(("sym", s, 1, 3, tier))
    for s in (("one_per_category", "several_per_category", "none") if tier == "quick" else tuple(CATEGORY_SETS)):
        for n in ((2,) if tier == "quick" else (0, 1, 2, 3)):
            cases.append(("sym", s, n, 0, tier, "cli"))
    cases += [("real", g, t, e, tier) for g, t, e in REAL_CASES]
    cases += [("real", g, t, e, tier, "cli") for g, t, e in REAL_CASES]
    rep.bounds = {
        "check_sets": CATEGORY_SETS,
        "verdicts": "one symbolic boolean per (check, node) call: every failing position in every category, any number "
                    "of failing checks; general checks of make_general_verifier registered as well",
        "records": "0..3 returned records with symbolic type/path/contents",
        "schema": "one schema with every verifier category populated",
        "real_plugins": "dbc, can_c, nop, cpp run concretely through GeneratorManager.generate with accepted/rejected "
                        "schemas into a temp dir with pre-existing files (stub conformance, not the deciding step)",
        "entries": "GeneratorManager.generate and the body of the `fcp generate` command (fcp.__main__.generate_cmd.callback: "
                   "real get_fcp on a real schema file, error reported by printing)",
        "outside": "click's argument parsing in front of the command body; side effects inside a real plug-in's own generate(); "
                   "checks registered without a category ('uncategorized')",
    }
    rep.stubs = ["fcp.codegen.Path/pathlib/os/print/str -> recording file-system model", "plug-in fcp_vstub"]
    rep.assumptions = ["the stub plug-in is discovered through the real pkgutil scan and driven through the real "
                       "GeneratorManager.generate -> Verifier.verify -> @catch -> CodeGenerator.gen -> handle_result",
                       "verdict bits are unconstrained: the solver's work is exhaustive path forking"]
    for r in pmap(_dispatch, cases):
        rep.merge(r)
        if rep.red_enough():
            break
    if rep.vacuity.get("accept_paths", 0) == 0 or rep.vacuity.get("reject_paths", 0) == 0:
        rep.inconclusive.append(f"vacuity: need accepting and rejecting paths, got {rep.vacuity}")
    rep.extra["traces_validated_against_impl"] = 2 * len(REAL_CASES)
    return rep.finish()
