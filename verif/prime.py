"""History priming: the properties quantify over schemas, not over processes, so a check must hold whatever the
process parsed / laid out / generated before.  Before a schema is analysed, the same pipeline is run concretely on a
*decoy* (same struct, enum, field and binding names; other widths, enum maxima and declaration order).  State that
survives across schemas (caches keyed by names, class-level attributes, mutable defaults) then shows up as a violation;
replays retry with the same priming when a fresh process does not reproduce."""
from __future__ import annotations

import os
import shutil
import tempfile


def prime(text: str, what=("parse",)):
    """Run the named stages concretely on the decoy text; every failure is ignored (the decoy is not under test)."""
    from .common import add_repo_paths

    add_repo_paths()
    try:
        from .fromfcp import parse
        fcp = parse(text)
    except Exception:
        return
    if "serde" in what:
        try:
            from fcp import serde
            from .fromfcp import schema_from_fcp
            from .shapes import zero_value
            for st in fcp.structs:
                sch = schema_from_fcp(fcp, top=st.name)
                v = zero_value(sch, ("struct", st.name))
                enc = serde.encode(fcp, st.name, v)
                serde.decode(fcp, st.name, enc)
                # aborted calls: whatever a call that raised part-way left behind must not leak into the next one
                last = max(st.fields, key=lambda f: f.field_id).name if st.fields else None
                bads = [{k: x for k, x in v.items() if k != last}, dict(v, **({last: object()} if last else {}))]
                for bad in bads:
                    try:
                        serde.encode(fcp, st.name, bad)
                    except Exception:
                        pass
                for data in (bytearray(enc[:-1]), bytearray(enc) + bytearray(b"\xff\xff\xff"), bytearray()):
                    try:
                        serde.decode(fcp, st.name, data)
                    except Exception:
                        pass
        except Exception:
            pass
    if "layout" in what:
        try:
            from fcp.encoding import make_encoder, PackedEncoderContext
            for unroll in (True, False):
                enc = make_encoder("packed", fcp, PackedEncoderContext().with_unroll_arrays(unroll))
                for impl in fcp.impls:
                    try:
                        enc.generate(impl)
                    except Exception:
                        pass
        except Exception:
            pass
    if "verify" in what:
        try:
            from fcp.verifier import make_general_verifier
            import fcp_dbc
            import fcp_can_c
            for plug in (None, fcp_dbc, fcp_can_c):
                v = make_general_verifier()
                if plug is not None:
                    plug.Generator().register_checks(v)
                v.verify(fcp)
        except Exception:
            pass
    for gen in ("dbc", "c", "cpp"):
        if gen not in what:
            continue
        d = tempfile.mkdtemp(prefix="verif_prime_")
        try:
            if gen == "dbc":
                import fcp_dbc
                fcp_dbc.Generator().generate(fcp, {"output": d})
            elif gen == "c":
                import fcp_can_c
                fcp_can_c.Generator().generate(fcp, {"output": d})
            else:
                import fcp_cpp
                fcp_cpp.Generator().generate(fcp, {"output": d})
        except Exception:
            pass
        finally:
            shutil.rmtree(d, ignore_errors=True)


def decoy_text(schema) -> str:
    from .shapes import decoy_of
    try:
        return decoy_of(schema).text()
    except Exception:
        return ""


def retry_primed(fn, what):
    """Replay wrapper: in a --primed replay process the decoy is processed first (before anything else touched the
    code under test), then the counterexample."""
    def wrapped(d):
        if d.get("_primed") and d.get("decoy_text"):
            prime(d["decoy_text"], what)
        return fn(d)
    wrapped.__name__ = getattr(fn, "__name__", "replay")
    return wrapped
