"""Stub generator plug-in used by the C10 harness (discovered through the real pkgutil scan of GeneratorManager).

Its checks return verdicts supplied by the harness (symbolic booleans) and its generate() returns the records the
harness supplies; it performs no I/O of its own."""
from fcp.codegen import CodeGenerator
from fcp.verifier import register
from fcp.result import Ok
from fcp.error import error

CONFIG = {"checks": [], "records": [], "verdict": None, "calls": []}


class Generator(CodeGenerator):
    def __init__(self):
        pass

    def generate(self, fcp, ctx):
        CONFIG["calls"].append("generate")
        return list(CONFIG["records"])

    def register_checks(self, verifier):
        epoch = CONFIG.get("epoch", 0)
        for ci, category in enumerate(CONFIG["checks"]):
            def make(ci, category):
                def check(self_, fcp, node):
                    if CONFIG.get("epoch", 0) != epoch:
                        # a check registered by an earlier generate() on the same verifier: it keeps being consulted and
                        # accepts (its verdicts belong to the earlier call); not part of this call's accounting
                        return Ok(())
                    k = sum(1 for c in CONFIG["calls"] if c[0] == ci) if True else 0
                    CONFIG["calls"].append((ci, k))
                    if CONFIG["verdict"](ci, category, k):
                        return Ok(())
                    return error(f"stub check {ci} ({category}) rejects node {k}")
                return check
            register(verifier, category)(make(ci, category))
