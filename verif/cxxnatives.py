"""Native models of the out-of-line libstdc++ / libc functions the generated run-time (dynamic) C++ codec reaches.

Each model states the contract it implements; all of them require concrete arguments (EngineLimit otherwise) except where noted.
libstdc++ layouts assumed (x86-64, _GLIBCXX_USE_CXX11_ABI=1): basic_string = {char* p; size_t len; union {size_t cap; char buf[16]}};
_Rb_tree_node_base = {int color; node* parent; node* left; node* right} (header: parent=root, left=leftmost, right=rightmost)."""
from __future__ import annotations

import math
import struct

from . import llsym
from .pysym import EngineLimit

I64 = llsym.T("int", n=64)
I32 = llsym.T("int", n=32)
RED, BLACK = 0, 1
PARENT, LEFT, RIGHT = 8, 16, 24


def _c(x, what):
    if not isinstance(x, int):
        raise EngineLimit(f"{what} is symbolic")
    return x


def cstr(mach, p, limit=4096):
    out = bytearray()
    while len(out) < limit:
        b = _c(mach.readbyte(p + len(out)), "C string byte")
        if b == 0:
            return bytes(out)
        out.append(b)
    raise EngineLimit("unterminated C string")


def put_string(mach, this, data: bytes):
    """construct a std::string holding data at `this` (SSO when it fits)"""
    n = len(data)
    if n <= 15:
        p = this + 16
    else:
        p = mach.alloc(n + 1, 16)
        mach.store(this + 16, I64, n)
    mach.store(this, I64, p)
    mach.store(this + 8, I64, n)
    for i, b in enumerate(data):
        mach.mem[p + i] = b
    mach.mem[p + n] = 0


def string_parts(mach, this):
    p = _c(mach.load(this, I64), "string data pointer")
    n = llsym.small_int(mach.load(this + 8, I64), 256)
    cap = 15 if p == this + 16 else _c(mach.load(this + 16, I64), "string capacity")
    return p, n, cap


def install(m):
    ld = lambda a: _c(m.load(a, I64), "tree link")

    # ---- red-black tree: insertion WITHOUT rebalancing (a valid binary search tree with the same in-order sequence; every
    # observer used by std::map - find/lower_bound/iteration/copy - depends only on the search-tree order), exact increment/decrement
    def rb_insert(mach, insert_left, x, p, header):
        insert_left = _c(insert_left, "insert_left") & 1
        x, p, header = _c(x, "node"), _c(p, "parent"), _c(header, "header")
        mach.store(x + PARENT, I64, p)
        mach.store(x + LEFT, I64, 0)
        mach.store(x + RIGHT, I64, 0)
        mach.store(x, I32, RED)
        if insert_left:
            mach.store(p + LEFT, I64, x)
            if p == header:
                mach.store(header + PARENT, I64, x)
                mach.store(header + RIGHT, I64, x)
            elif p == ld(header + LEFT):
                mach.store(header + LEFT, I64, x)
        else:
            mach.store(p + RIGHT, I64, x)
            if p == ld(header + RIGHT):
                mach.store(header + RIGHT, I64, x)
        mach.store(ld(header + PARENT), I32, BLACK)
        return None

    def rb_increment(mach, x):
        x = _c(x, "node")
        if ld(x + RIGHT) != 0:
            x = ld(x + RIGHT)
            while ld(x + LEFT) != 0:
                x = ld(x + LEFT)
            return x
        y = ld(x + PARENT)
        while x == ld(y + RIGHT):
            x, y = y, ld(y + PARENT)
        if ld(x + RIGHT) != y:
            x = y
        return x

    def rb_decrement(mach, x):
        x = _c(x, "node")
        if _c(mach.load(x, I32), "colour") == RED and ld(ld(x + PARENT) + PARENT) == x:
            return ld(x + RIGHT)
        if ld(x + LEFT) != 0:
            y = ld(x + LEFT)
            while ld(y + RIGHT) != 0:
                y = ld(y + RIGHT)
            return y
        y = ld(x + PARENT)
        while x == ld(y + LEFT):
            x, y = y, ld(y + PARENT)
        return y

    m.natives["@_ZSt29_Rb_tree_insert_and_rebalancebPSt18_Rb_tree_node_baseS0_RS_"] = rb_insert
    m.natives["@_ZSt18_Rb_tree_incrementPSt18_Rb_tree_node_base"] = rb_increment
    m.natives["@_ZSt18_Rb_tree_incrementPKSt18_Rb_tree_node_base"] = rb_increment
    m.natives["@_ZSt18_Rb_tree_decrementPSt18_Rb_tree_node_base"] = rb_decrement
    m.natives["@_ZSt18_Rb_tree_decrementPKSt18_Rb_tree_node_base"] = rb_decrement

    # ---- libc
    errno_cell = m.alloc(8)          # allocated at install time: memory snapshots taken later contain it
    m.store(errno_cell, I32, 0)

    def errno_location(mach):
        return errno_cell

    def strtol(mach, s, endp, base):
        text = cstr(mach, _c(s, "strtol argument"))
        base = _c(base, "strtol base")
        if base != 10:
            raise EngineLimit("strtol with a base other than 10")
        i = 0
        while i < len(text) and text[i:i + 1] in b" \t\n\r\v\f":
            i += 1
        j = i
        if j < len(text) and text[j:j + 1] in b"+-":
            j += 1
        k = j
        while k < len(text) and text[k:k + 1].isdigit():
            k += 1
        if k == j:
            val, end = 0, 0
        else:
            val, end = int(text[i:k]), k
            if not -(1 << 63) <= val < (1 << 63):
                raise EngineLimit("strtol out of range")
        if endp:
            mach.store(endp, I64, s + end)
        return val & llsym.mask(64)

    def log2(mach, x):
        bits = llsym.fp_bits(x)
        if not isinstance(bits, int):
            raise EngineLimit("log2 of a symbolic double")
        d = struct.unpack("<d", struct.pack("<Q", bits & llsym.mask(64)))[0]
        r = math.log2(d) if d > 0 else (float("-inf") if d == 0 else float("nan"))
        return llsym.as_fp(struct.unpack("<Q", struct.pack("<d", r))[0], 64)

    m.natives["@__errno_location"] = errno_location
    m.natives["@strtol"] = strtol
    m.natives["@log2"] = log2

    # ---- __gnu_cxx::__to_xstring<std::string,char>(vsnprintf, n, fmt, ...): only the formats std::to_string uses
    for name in list(m.mod.funcs):
        if "__to_xstring" in name:
            def to_xstring(mach, sret, fn, n, fmt, *va):
                f = cstr(mach, _c(fmt, "format"))
                if f == b"%f":
                    bits = llsym.fp_bits(va[0])
                    if not isinstance(bits, int):
                        raise EngineLimit("std::to_string of a symbolic double")
                    text = "%f" % struct.unpack("<d", struct.pack("<Q", bits & llsym.mask(64)))[0]
                elif f in (b"%d", b"%ld", b"%lld"):
                    w = 32 if f == b"%d" else 64
                    text = str(llsym.sext(_c(va[0], "to_string argument") & llsym.mask(w), w))
                elif f in (b"%u", b"%lu", b"%llu"):
                    w = 32 if f == b"%u" else 64
                    text = str(_c(va[0], "to_string argument") & llsym.mask(w))
                else:
                    raise EngineLimit(f"__to_xstring format {f!r}")
                put_string(mach, sret, text.encode())
                return None
            m.overrides[name] = to_xstring

    # ---- basic_string out-of-line members (contract: the C++ standard's effects; capacity rule irrelevant to observers)
    def s_assign(mach, this, other):
        p, n, _ = string_parts(mach, other)
        data = [mach.readbyte(p + i) for i in range(n)]
        _set(mach, this, data)
        return this

    def _set(mach, this, data):
        n = len(data)
        p, _, cap = string_parts(mach, this)
        if n > cap:
            p = mach.alloc(n + 1, 16)
            mach.store(this, I64, p)
            mach.store(this + 16, I64, n)
        for i, b in enumerate(data):
            mach.mem[p + i] = b
        mach.mem[p + n] = 0
        mach.store(this + 8, I64, n)

    def s_append(mach, this, s, n):
        n = llsym.small_int(n, 256)
        p, ln, _ = string_parts(mach, this)
        data = [mach.readbyte(p + i) for i in range(ln)] + [mach.readbyte(_c(s, "source") + i) for i in range(n)]
        _set(mach, this, data)
        return this

    def s_replace(mach, this, pos, len1, s, len2):
        pos, len1, len2 = _c(pos, "pos"), _c(len1, "len1"), llsym.small_int(len2, 256)
        p, ln, _ = string_parts(mach, this)
        old = [mach.readbyte(p + i) for i in range(ln)]
        ins = [mach.readbyte(_c(s, "source") + i) for i in range(len2)]
        _set(mach, this, old[:pos] + ins + old[pos + len1:])
        return this

    def s_reserve(mach, this, n):
        n = _c(n, "reserve size")
        p, ln, cap = string_parts(mach, this)
        if n > cap:
            np_ = mach.alloc(n + 1, 16)
            for i in range(ln + 1):
                mach.mem[np_ + i] = mach.readbyte(p + i)
            mach.store(this, I64, np_)
            mach.store(this + 16, I64, n)
        return None

    def s_construct_fill(mach, this, n, c):
        n = llsym.small_int(n, 256)
        mach.store(this, I64, this + 16)
        mach.store(this + 8, I64, 0)
        _set(mach, this, [c] * n)
        return None

    def s_copy_ctor(mach, this, other):
        p, n, _ = string_parts(mach, other)
        data = [mach.readbyte(p + i) for i in range(n)]
        mach.store(this, I64, this + 16)
        mach.store(this + 8, I64, 0)
        _set(mach, this, data)
        return None

    def s_dtor(mach, this):
        return None

    S = "NSt7__cxx1112basic_stringIcSt11char_traitsIcESaIcEE"
    m.natives[f"@_Z{S}C2ERKS4_"] = s_copy_ctor
    m.natives[f"@_Z{S}C1ERKS4_"] = s_copy_ctor
    m.natives[f"@_Z{S}D2Ev"] = s_dtor
    m.natives[f"@_Z{S}D1Ev"] = s_dtor
    m.natives[f"@_Z{S}9_M_assignERKS4_"] = s_assign
    m.natives[f"@_Z{S}9_M_appendEPKcm"] = s_append
    m.natives[f"@_Z{S}10_M_replaceEmmPKcm"] = s_replace
    m.natives[f"@_Z{S}7reserveEm"] = s_reserve
    m.natives[f"@_Z{S}12_M_constructEmc"] = s_construct_fill
