"""Entry point: python -m verif.check <ID> --tier quick|thorough"""
from __future__ import annotations

import argparse
import os
import sys


def main():
    ap = argparse.ArgumentParser()
    ap.add_argument("prop")
    ap.add_argument("--tier", default=os.environ.get("VERIF_TIER", "quick"), choices=["quick", "thorough"])
    a = ap.parse_args()
    from .common import add_repo_paths, EXIT_INCONCLUSIVE

    add_repo_paths()
    from .checks import REGISTRY

    if a.tier == "thorough" or os.environ.get("VERIF_CROSS"):
        from .pysym import CrossCheck
        from .common import seed
        CrossCheck.enable(seed(), float(os.environ.get("VERIF_CROSS_RATE", "0.02")))
    if a.prop not in REGISTRY:
        print(f"unknown property {a.prop}; have {sorted(REGISTRY)}")
        sys.exit(EXIT_INCONCLUSIVE)
    try:
        code = REGISTRY[a.prop](a.tier)
    except Exception:
        import traceback

        traceback.print_exc()
        print(f"INCONCLUSIVE property={a.prop} harness error")
        code = EXIT_INCONCLUSIVE
    sys.exit(code)


if __name__ == "__main__":
    main()
