"""Generated C++ (fcp.h / buffer.h / decoders.h): harness TU generation, compilation to IR, value marshalling.

The harness only constructs typed values from a flat little-endian argument area (carrier-sized scalars, u64 counts,
u8 presence flags, in declaration order) and calls the generated Encode / Decode; for decoding it dumps the typed
result back into such an area.  No JSON code is ever executed."""
from __future__ import annotations

import os

import z3

from .common import add_repo_paths, VERIF
from .fromfcp import parse
from .native import run, CLANGXX
from .shapes import Schema, enum_width

THIRD_PARTY = os.path.join(VERIF, "third_party")


def generate_cpp(text: str, outdir: str):
    add_repo_paths()
    import fcp_cpp

    fcp = parse(text)
    os.makedirs(outdir, exist_ok=True)
    for r in fcp_cpp.Generator().generate(fcp, {"output": outdir}):
        p = str(r["path"])
        os.makedirs(os.path.dirname(p), exist_ok=True)
        with open(p, "w") as f:
            f.write(str(r["contents"]))
    return fcp


def carrier(n):
    return 8 if n <= 8 else 16 if n <= 16 else 32 if n <= 32 else 64


def pascal(s):
    """to_pascal_case of fcp.utils, re-stated for member type aliases (<Field>Type)."""
    return "".join(x.capitalize() for x in s.split("_"))


def cpp_type(schema: Schema, t) -> str:
    k = t[0]
    if k == "u":
        return f"Unsigned<std::uint{carrier(t[1])}_t, {t[1]}>"
    if k == "i":
        return f"Signed<std::int{carrier(t[1])}_t, {t[1]}>"
    if k == "f32":
        return "Float"
    if k == "f64":
        return "Double"
    if k == "str":
        return "String"
    if k in ("enum", "struct"):
        return t[1]
    if k == "arr":
        return f"Array<{cpp_type(schema, t[1])}, {t[2]}>"
    if k == "dyn":
        return f"DynamicArray<{cpp_type(schema, t[1])}>"
    if k == "opt":
        return f"Optional<{cpp_type(schema, t[1])}>"
    raise ValueError(t)


def _prelude(includes=()):
    return ['#include <cstdint>', '#include <cstring>', '#include <cmath>', '#include <limits>', '#include <new>', '#include "fcp.h"'] + list(includes) + [
        'using namespace fcp;',
        'struct Rd { const unsigned char* p; template<class X> X get() { X x; std::memcpy(&x, p, sizeof x); p += sizeof x; return x; } };',
        'struct Wr { unsigned char* p; template<class X> void put(X x) { std::memcpy(p, &x, sizeof x); p += sizeof x; } };']


def _builders(schema: Schema, out: list):
    """Appends bld<k>(Rd&) / dmp<k>(const T&, Wr&) for every type asked for; returns build(t) -> (bld, dmp)."""
    n = [0]
    builders = {}

    def build(t):
        key = repr(t)
        if key in builders:
            return builders[key]
        n[0] += 1
        name = f"bld{n[0]}"
        dname = f"dmp{n[0]}"
        builders[key] = (name, dname)
        W_ = cpp_type(schema, t)
        k = t[0]
        if k in ("u", "i"):
            c = f"std::{'u' if k == 'u' else ''}int{carrier(t[1])}_t"
            b = f"static {W_} {name}(Rd& r) {{ return {W_}(r.get<{c}>()); }}"
            d = f"static void {dname}(const {W_}& x, Wr& w) {{ w.put<{c}>(x.GetData()); }}"
        elif k in ("f32", "f64"):
            c = "float" if k == "f32" else "double"
            b = f"static {W_} {name}(Rd& r) {{ return {W_}(r.get<{c}>()); }}"
            d = f"static void {dname}(const {W_}& x, Wr& w) {{ w.put<{c}>(x.GetData()); }}"
        elif k == "enum":
            b = f"static {W_} {name}(Rd& r) {{ return {W_}(({W_}::UnderlyingType)r.get<std::uint64_t>()); }}"
            d = f"static void {dname}(const {W_}& x, Wr& w) {{ w.put<std::uint64_t>(x.GetData()); }}"
        elif k == "str":
            b = (f"static {W_} {name}(Rd& r) {{ auto n = r.get<std::uint64_t>(); std::string s((const char*)r.p, n); "
                 f"r.p += n; return {W_}(s); }}")
            d = (f"static void {dname}(const {W_}& x, Wr& w) {{ auto s = x.GetData(); w.put<std::uint64_t>(s.size()); "
                 f"for (unsigned char c : s) w.put<unsigned char>(c); }}")
        elif k == "arr":
            ib, idm = build(t[1])
            IW = cpp_type(schema, t[1])
            b = (f"static {W_} {name}(Rd& r) {{ std::array<{IW}, {t[2]}> a; for (std::size_t i = 0; i < {t[2]}; i++) "
                 f"a[i] = {ib}(r); return {W_}(a); }}")
            d = (f"static void {dname}(const {W_}& x, Wr& w) {{ for (std::size_t i = 0; i < {t[2]}; i++) "
                 f"{idm}(x.GetData()[i], w); }}")
        elif k == "dyn":
            ib, idm = build(t[1])
            IW = cpp_type(schema, t[1])
            b = (f"static {W_} {name}(Rd& r) {{ auto n = r.get<std::uint64_t>(); std::vector<{IW}> v; "
                 f"for (std::uint64_t i = 0; i < n; i++) v.push_back({ib}(r)); return {W_}(v); }}")
            d = (f"static void {dname}(const {W_}& x, Wr& w) {{ auto v = x.GetData(); w.put<std::uint64_t>(v.size()); "
                 f"for (const auto& e : v) {idm}(e, w); }}")
        elif k == "opt":
            ib, idm = build(t[1])
            IW = cpp_type(schema, t[1])
            b = (f"static {W_} {name}(Rd& r) {{ auto h = r.get<unsigned char>(); if (h) return {W_}::Some({ib}(r)); "
                 f"return {W_}::None(); }}")
            d = (f"static void {dname}(const {W_}& x, Wr& w) {{ auto o = x.GetData(); w.put<unsigned char>(o.has_value() ? 1 : 0); "
                 f"if (o.has_value()) {idm}(o.value(), w); }}")
        elif k == "struct":
            fs = schema.struct(t[1])
            subs = [build(ft) for _, _, ft in fs]
            args = "; ".join(f"auto a{i} = {sb[0]}(r)" for i, sb in enumerate(subs))
            b = (f"static {W_} {name}(Rd& r) {{ {args}; return {W_}({', '.join(f'a{i}' for i in range(len(fs)))}); }}")
            dumps = " ".join(f"{sb[1]}(x.Get{pascal(fn)}(), w);" for (fn, _, _), sb in zip(fs, subs))
            d = f"static void {dname}(const {W_}& x, Wr& w) {{ {dumps} }}"
        else:
            raise ValueError(t)
        out.append(b)
        out.append(d)
        return builders[key]

    return build


def harness_source(schema: Schema) -> str:
    """C++ TU with extern "C" enc(args, out) -> nbytes and dec(in, n, out_area) -> area bytes for the top struct."""
    out = _prelude()
    build = _builders(schema, out)
    top = ("struct", schema.top)
    bname, dname = build(top)
    out.append(f'extern "C" unsigned long enc(const unsigned char* args, unsigned char* out) {{ Rd r{{args}}; '
               f'{schema.top} v = {bname}(r); Buffer buf{{0}}; v.Encode(buf); auto d = buf.GetData(); '
               f'for (unsigned long i = 0; i < d.size(); i++) out[i] = d[i]; return d.size(); }}')
    out.append(f'extern "C" unsigned long dec(const unsigned char* in, unsigned long n, unsigned char* area) {{ '
               f'Buffer buf{{in, in + n}}; {schema.top} v = {schema.top}::Decode(buf); Wr w{{area}}; {dname}(v, w); '
               f'return (unsigned long)(w.p - area); }}')
    return "\n".join(out) + "\n"


FRAME_BYTES = 15     # bus[4] sid(le16) dlc data[8]


def can_harness_source(schema: Schema, structs: list) -> str:
    """TU for the CAN wrapper (can_static_schema.h): can_enc(name, frame15) -> 0/1 and can_dec(frame15, name_out) -> -1 | len,
    plus mk_<S>(args, S*) / dump_<S>(const S*, area) which the native models of S::FromJson / S::DecodeJson call: JSON
    itself is never executed, a null json is handed through."""
    out = _prelude(['#include <memory>', '#include "can.h"', '#include "can_static_schema.h"'])
    build = _builders(schema, out)
    for sn in structs:
        b, d = build(("struct", sn))
        out.append(f'extern "C" void mk_{sn}(const unsigned char* args, {sn}* out) {{ Rd r{{args}}; new (out) {sn}({b}(r)); }}')
        out.append(f'extern "C" unsigned long dump_{sn}(const {sn}* x, unsigned char* area) {{ Wr w{{area}}; {d}(*x, w); '
                   f'return (unsigned long)(w.p - area); }}')
    out.append('extern "C" int can_enc(const char* name, unsigned char* out) { fcp::can::Can s{std::make_shared<fcp::can::CanStaticSchema>(fcp::can::CanStaticSchema{})}; nlohmann::json j; '
               'auto f = s.Encode(std::string(name), j); if (!f.has_value()) return 0; '
               'std::memcpy(out, f->bus.data(), 4); std::memcpy(out + 4, &f->sid, 2); out[6] = f->dlc; '
               'std::memcpy(out + 7, f->data.data(), 8); return 1; }')
    out.append('extern "C" long can_dec(const unsigned char* in, char* name_out) { fcp::can::frame_t f; '
               'std::memcpy(f.bus.data(), in, 4); std::memcpy(&f.sid, in + 4, 2); f.dlc = in[6]; std::memcpy(f.data.data(), in + 7, 8); '
               'fcp::can::Can s{std::make_shared<fcp::can::CanStaticSchema>(fcp::can::CanStaticSchema{})}; auto r = s.Decode(f); if (!r.has_value()) return -1; '
               'for (unsigned long i = 0; i < r->first.size(); i++) name_out[i] = r->first[i]; return (long)r->first.size(); }')
    # history on one Can object: a frame that matches no binding is decoded first, then the frame under test
    out.append('extern "C" long can_dec2(const unsigned char* first, const unsigned char* in, char* name_out) { fcp::can::frame_t g, f; '
               'std::memcpy(g.bus.data(), first, 4); std::memcpy(&g.sid, first + 4, 2); g.dlc = first[6]; std::memcpy(g.data.data(), first + 7, 8); '
               'std::memcpy(f.bus.data(), in, 4); std::memcpy(&f.sid, in + 4, 2); f.dlc = in[6]; std::memcpy(f.data.data(), in + 7, 8); '
               'fcp::can::Can s{std::make_shared<fcp::can::CanStaticSchema>(fcp::can::CanStaticSchema{})}; '
               'try { (void)s.Decode(g); } catch (...) {} auto r = s.Decode(f); if (!r.has_value()) return -1; '
               'for (unsigned long i = 0; i < r->first.size(); i++) name_out[i] = r->first[i]; return (long)r->first.size(); }')
    return "\n".join(out) + "\n"


def _json_builders(schema: Schema, out: list):
    """Appends jb<k>(Rd&, bool dyn) -> json / jd<k>(const json&, Wr&, bool dyn) for every type asked for; returns gen(t)."""
    n = [0]
    done = {}

    def gen(t):
        key = repr(t)
        if key in done:
            return done[key]
        n[0] += 1
        b, d = f"jb{n[0]}", f"jd{n[0]}"
        done[key] = (b, d)
        k = t[0]
        if k in ("u", "i"):
            c = f"std::{'u' if k == 'u' else ''}int{carrier(t[1])}_t"
            bb = f"return json(r.get<{c}>());"
            dd = f"w.put<{c}>(j.get<{c}>());"
            if k == "i":
                # a signed field must not come back as an unsigned JSON number beyond int64 (-24 printed as 18446744073709551592)
                dd += " w.put<unsigned char>((unsigned char)(j.is_number_unsigned() ? (j.get<std::uint64_t>() >> 63) : 0));"
        elif k in ("f32", "f64"):
            c = "float" if k == "f32" else "double"
            bb = f"return json(r.get<{c}>());"
            dd = f"w.put<{c}>(j.get<{c}>());"
        elif k == "enum":
            vals = schema.enums[t[1]]
            cases = " ".join(f'case {v}: return json("{nm}");' for nm, v in vals)
            bb = (f"auto v = r.get<std::uint64_t>(); if (!dyn) return json(v); switch (v) {{ {cases} default: return json(\"?\"); }}")
            chain = " ".join(f'if (s == "{nm}") v = {v};' for nm, v in vals)
            dd = (f"if (!dyn) {{ w.put<std::uint64_t>(j.get<std::uint64_t>()); return; }} auto s = j.get<std::string>(); "
                  f"std::uint64_t v = ~0ull; {chain} w.put<std::uint64_t>(v);")
        elif k == "str":
            bb = "auto n = r.get<std::uint64_t>(); std::string s((const char*)r.p, n); r.p += n; return json(s);"
            dd = "auto s = j.get<std::string>(); w.put<std::uint64_t>(s.size()); for (unsigned char c : s) w.put<unsigned char>(c);"
        elif k == "arr":
            ib, idm = gen(t[1])
            bb = f"json a = json::array(); for (std::size_t i = 0; i < {t[2]}; i++) a.push_back({ib}(r, dyn)); return a;"
            dd = f"for (std::size_t i = 0; i < {t[2]}; i++) {idm}(j.at(i), w, dyn);"
        elif k == "dyn":
            ib, idm = gen(t[1])
            bb = "auto n = r.get<std::uint64_t>(); json a = json::array(); for (std::uint64_t i = 0; i < n; i++) a.push_back(%s(r, dyn)); return a;" % ib
            dd = "w.put<std::uint64_t>(j.size()); for (std::size_t i = 0; i < j.size(); i++) %s(j.at(i), w, dyn);" % idm
        elif k == "opt":
            ib, idm = gen(t[1])
            bb = f"auto h = r.get<unsigned char>(); if (h) return {ib}(r, dyn); return json(nullptr);"
            dd = f"w.put<unsigned char>(j.is_null() ? 0 : 1); if (!j.is_null()) {idm}(j, w, dyn);"
        elif k == "struct":
            fs = schema.struct(t[1])
            subs = [gen(ft) for _, _, ft in fs]
            bb = "json o = json::object(); " + " ".join(f'o["{fn}"] = {sb[0]}(r, dyn);' for (fn, _, _), sb in zip(fs, subs)) + " return o;"
            dd = " ".join(f'{sb[1]}(j.at("{fn}"), w, dyn);' for (fn, _, _), sb in zip(fs, subs))
        else:
            raise ValueError(t)
        out.append(f"static json {b}(Rd& r, bool dyn) {{ {bb} }}")
        out.append(f"static void {d}(const json& j, Wr& w, bool dyn) {{ {dd} }}")
        return done[key]

    return gen


def dyn_harness_source(schema: Schema, dynamic: bool = True) -> str:
    """TU for the run-time (reflection-loaded) codec against the static one, both through their JSON entry points:
    dyn_load(bin, n) -> DynamicSchema*; {sta,dyn}_enc(.., args, out) -> nbytes | -1; {sta,dyn}_dec(.., in, n, area) -> area bytes | -1.
    The json values are built from / dumped to the flat areas of marshal(); enumerators travel as numbers in the areas and
    are spelled as names towards the dynamic schema (the representational difference the property allows)."""
    out = _prelude(['#include "dynamic.h"'] if dynamic else [])
    out.append('using json = nlohmann::json;')
    gen = _json_builders(schema, out)
    top = schema.top
    b, d = gen(("struct", top))
    if dynamic:
        # the same reflection is loaded twice into one object (a reload): the schema must behave as after one load
        # (the CAN part, C18, loads once)
        out.append('extern "C" void* dyn_load(const char* bin, unsigned long n) { auto* s = new fcp::dynamic::DynamicSchema(); '
                   's->LoadBinarySchema(std::string(bin, n)); s->LoadBinarySchema(std::string(bin, n)); return s; }')
    copy = 'if (!e.has_value()) return -1; for (unsigned long i = 0; i < e->size(); i++) out[i] = (*e)[i]; return (long)e->size();'
    if dynamic:
        out.append(f'extern "C" long dyn_enc(void* sp, const unsigned char* args, unsigned char* out) {{ Rd r{{args}}; json j = {b}(r, true); '
                   f'auto e = ((fcp::dynamic::DynamicSchema*)sp)->EncodeJson("{top}", j); {copy} }}')
    out.append(f'extern "C" long sta_enc(const unsigned char* args, unsigned char* out) {{ Rd r{{args}}; json j = {b}(r, false); '
               f'fcp::StaticSchema s; auto e = s.EncodeJson("{top}", j); {copy} }}')
    if dynamic:
        out.append(f'extern "C" long dyn_dec(void* sp, const unsigned char* in, unsigned long n, unsigned char* area) {{ '
                   f'auto v = ((fcp::dynamic::DynamicSchema*)sp)->DecodeJson("{top}", std::vector<std::uint8_t>(in, in + n)); '
                   f'if (!v.has_value()) return -1; Wr w{{area}}; {d}(*v, w, true); return (long)(w.p - area); }}')
    out.append(f'extern "C" long sta_dec(const unsigned char* in, unsigned long n, unsigned char* area) {{ fcp::StaticSchema s; '
               f'auto v = s.DecodeJson("{top}", std::vector<std::uint8_t>(in, in + n)); '
               f'if (!v.has_value()) return -1; Wr w{{area}}; {d}(*v, w, false); return (long)(w.p - area); }}')
    return "\n".join(out) + "\n"


def can_dyn_harness_source(schema: Schema, structs: list) -> str:
    """TU for the static against the reflection-loaded CAN wrapper, real JSON on both sides: dyn_load; xcan_enc(sp|0, which, args,
    frame15) -> 0/1; xcan_dec(sp|0, frame15, name_out, area, &area_n) -> -1 | name length (the value dumped per decoded name)."""
    out = _prelude(['#include <memory>', '#include "dynamic.h"', '#include "can.h"', '#include "can_static_schema.h"',
                    '#include "can_dynamic_schema.h"'])
    out.append('using json = nlohmann::json;')
    gen = _json_builders(schema, out)
    # entries are struct names (binding named after its struct) or (binding name, struct) pairs
    structs = [(x, x) if isinstance(x, str) else (x[0], x[1]) for x in structs]
    fns = [gen(("struct", st)) for _, st in structs]
    structs = [bn for bn, _ in structs]
    out.append('extern "C" void* dyn_load(const char* bin, unsigned long n) { auto* s = new fcp::dynamic::DynamicSchema(); '
               's->LoadBinarySchema(std::string(bin, n)); return s; }')
    out.append('static fcp::can::Can mk_can(void* sp) { if (sp) return fcp::can::Can{std::make_shared<fcp::can::CanDynamicSchema>('
               'fcp::can::CanDynamicSchema(*(fcp::dynamic::DynamicSchema*)sp))}; '
               'return fcp::can::Can{std::make_shared<fcp::can::CanStaticSchema>(fcp::can::CanStaticSchema{})}; }')
    cases = " ".join(f'case {i}: name = "{sn}"; j = {fns[i][0]}(r, dyn); break;' for i, sn in enumerate(structs))
    out.append('extern "C" int xcan_enc(void* sp, int which, const unsigned char* args, unsigned char* out) { Rd r{args}; bool dyn = sp != 0; '
               'json j; const char* name = ""; switch (which) { ' + cases + ' } auto s = mk_can(sp); auto f = s.Encode(std::string(name), j); '
               'if (!f.has_value()) return 0; std::memcpy(out, f->bus.data(), 4); std::memcpy(out + 4, &f->sid, 2); out[6] = f->dlc; '
               'std::memcpy(out + 7, f->data.data(), 8); return 1; }')
    dumps = " ".join(f'if (r->first == "{sn}") {fns[i][1]}(r->second, w, dyn);' for i, sn in enumerate(structs))
    out.append('extern "C" long xcan_dec(void* sp, const unsigned char* in, char* name_out, unsigned char* area, long* area_n) { '
               'bool dyn = sp != 0; fcp::can::frame_t f; std::memcpy(f.bus.data(), in, 4); std::memcpy(&f.sid, in + 4, 2); f.dlc = in[6]; '
               'std::memcpy(f.data.data(), in + 7, 8); auto s = mk_can(sp); auto r = s.Decode(f); if (!r.has_value()) return -1; '
               'for (unsigned long i = 0; i < r->first.size(); i++) name_out[i] = r->first[i]; Wr w{area}; ' + dumps +
               ' *area_n = (long)(w.p - area); return (long)r->first.size(); }')
    return "\n".join(out) + "\n"


def reflection_binary(fcp) -> bytes:
    """The binary reflection the Python tool produces for a parsed schema (what DynamicSchema::LoadBinarySchema reads)."""
    from fcp.serde import encode as serde_encode
    from fcp.reflection import get_reflection_schema

    return bytes(serde_encode(get_reflection_schema().unwrap(), "Fcp", fcp.reflection()))


def compile_to_ir(outdir: str, opt="-O1"):
    ll = os.path.join(outdir, "harness.ll")
    rc, so, se = run([CLANGXX, "-std=c++17", opt, "-S", "-emit-llvm", "-w", "-I", outdir, "-I", THIRD_PARTY,
                      "harness.cpp", "-o", ll], cwd=outdir, timeout=900)
    if rc != 0:
        return False, se[-2000:]
    return True, ll


def syntax_check(outdir: str, compiler="g++"):
    src = os.path.join(outdir, "syntax.cpp")
    open(src, "w").write('#include "fcp.h"\nint main() { return 0; }\n')
    rc, so, se = run([compiler, "-std=c++17", "-fsyntax-only", "-w", "-I", outdir, "-I", THIRD_PARTY, "syntax.cpp"], cwd=outdir, timeout=900)
    return rc == 0, se[-1500:]


# ---------------------------------------------------------------- marshalling values to/from the argument area
def marshal(schema: Schema, t, v, out: list, enum_bits=64, iflag=False):
    """Append the bytes (int | z3 BV8) of value v (z3 terms / ints / Inst-style values) to `out`."""
    from .pysym import SymInt, SymFloat, SymStr

    def put(x, nbits):
        if type(x) is SymInt:
            e = z3.Extract(nbits - 1, 0, x.e)
        elif type(x) is SymFloat:
            e = x.e
        elif isinstance(x, z3.BitVecRef):
            e = x if x.size() == nbits else (z3.Extract(nbits - 1, 0, x) if x.size() > nbits else z3.ZeroExt(nbits - x.size(), x))
        else:
            e = z3.BitVecVal(int(x), nbits)
        for i in range(nbits // 8):
            b = z3.simplify(z3.Extract(8 * i + 7, 8 * i, e))
            out.append(b.as_long() if z3.is_bv_value(b) else b)

    k = t[0]
    if k in ("u", "i"):
        put(v, carrier(t[1]))
        if iflag and k == "i":
            put(0, 8)       # the JSON dumpers add "is an unsigned JSON number beyond int64" after every signed leaf: never
    elif k == "f32":
        put(v, 32)
    elif k == "f64":
        put(v, 64)
    elif k == "enum":
        put(v, enum_bits)   # enums travel as u64 in the argument/dump areas (cast to UnderlyingType in the harness)
    elif k == "str":
        put(len(v), 64)
        for c in v:
            put(c if not isinstance(c, str) else ord(c), 8)
    elif k == "arr":
        for x in v:
            marshal(schema, t[1], x, out, enum_bits, iflag)
    elif k == "dyn":
        put(len(v), 64)
        for x in v:
            marshal(schema, t[1], x, out, enum_bits, iflag)
    elif k == "opt":
        put(0 if v is None else 1, 8)
        if v is not None:
            marshal(schema, t[1], v, out, enum_bits, iflag)
    elif k == "struct":
        for fn, _, ft in schema.struct(t[1]):
            marshal(schema, ft, v[fn], out, enum_bits, iflag)
    else:
        raise ValueError(t)


def unmarshal_fixed(schema: Schema, t, area, pos=0, path=""):
    """Fixed-size types only: -> ([(path, kind, carrier_bits, term)], next_pos) from a list of byte terms."""
    import z3 as _z

    def get(nbits):
        nonlocal pos
        bs = area[pos:pos + nbits // 8]
        pos += nbits // 8
        bs = [b if not isinstance(b, int) else _z.BitVecVal(b, 8) for b in bs]
        return bs[0] if len(bs) == 1 else _z.Concat(*reversed(bs))

    k = t[0]
    if k in ("u", "i"):
        c = carrier(t[1])
        return [(path, k, c, get(c))], pos
    if k == "f32":
        return [(path, k, 32, get(32))], pos
    if k == "f64":
        return [(path, k, 64, get(64))], pos
    if k == "enum":
        return [(path, k, 64, get(64))], pos
    if k == "arr":
        out = []
        for i in range(t[2]):
            o, pos = unmarshal_fixed(schema, t[1], area, pos, f"{path}[{i}]")
            out += o
        return out, pos
    if k == "struct":
        out = []
        for fn, _, ft in schema.struct(t[1]):
            o, pos = unmarshal_fixed(schema, ft, area, pos, (path + "." if path else "") + fn)
            out += o
        return out, pos
    raise ValueError("not fixed: %r" % (t,))
