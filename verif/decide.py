"""Deciding one obligation with known-finding regions excluded and counterexamples replayed."""
from __future__ import annotations

import z3

from .common import Known, write_replay, run_replay
from .pysym import EngineLimit


def new_result(sample=None):
    return {"queries": 0, "solver_s": 0.0, "paths": 0, "obligations": [], "discharged": 0, "violations": [],
            "unconfirmed": [], "known": [], "inconclusive": [], "functions": [], "sample": sample, "vacuity": {}}


def nontrivial(formula) -> bool:
    f = z3.simplify(formula)
    return not (z3.is_true(f) or z3.is_false(f))


def decide(eng, pc, violated, *, prop, ob_id, res, known: Known, features, env, make_replay, what,
           max_replays=[12]):
    """`violated` is a z3 Bool that is satisfiable under pc iff the obligation fails on this path.

    unsat -> discharged.  sat inside an open known-finding region -> KNOWN-FINDING, region excluded, ask again.
    sat outside -> replay against the real code; only a reproduced failure becomes a violation."""
    res["obligations"].append(ob_id)
    extra = []
    excluded = False
    for _ in range(16):
        r, m = eng.check(violated, *extra, pc=pc)
        if r == "unsat":
            res["discharged"] += 1
            return "known" if excluded else "held"
        if r == "unknown":
            res["inconclusive"].append(f"{ob_id}: solver unknown")
            return "unknown"
        hit = None
        for f in known.matching(features):
            reg = Known.region(f, env)
            if z3.is_true(m.eval(reg, model_completion=True)):
                hit = (f, reg)
                break
        if hit is not None:
            f, reg = hit
            res["known"].append((f["id"], f["what"]))
            excluded = True
            if z3.is_true(z3.simplify(reg)):
                res["discharged"] += 1  # the whole case lies inside the listed region
                return "known"
            extra.append(z3.Not(reg))
            continue
        # a violation that no listed finding covers
        if max_replays[0] <= 0:
            res["violations_unreplayed"] = res.get("violations_unreplayed", 0) + 1
            if res["violations_unreplayed"] <= 1:
                res["inconclusive"].append(f"{ob_id}: further counterexample not replayed (replay budget): {what}")
            return "violated"
        max_replays[0] -= 1
        payload = make_replay(m)
        payload["property"] = prop
        payload["obligation"] = ob_id
        payload["what"] = what
        path = write_replay(prop, payload)
        ok, text = run_replay(path)
        if ok is False:
            # one more witness before giving up: the same violation with every symbolic integer away from the values a
            # Python process shares as objects (-5..256) - a defect that compares ints by identity only shows there
            ints = [x for x in (env.get("v") or {}).values() if z3.is_bv(x)] if isinstance(env, dict) else []
            if ints:
                far = [z3.Or(x > 256, x < -5) for x in ints]
                r2, m2 = eng.check(violated, *extra, *far, pc=pc)
                if r2 == "sat":
                    payload = make_replay(m2)
                    payload.update(property=prop, obligation=ob_id, what=what)
                    path = write_replay(prop, payload)
                    ok, text = run_replay(path)
        if ok is True:
            res["violations"].append({"replay": path, "what": f"{what} :: {text[-300:]}", "ob": ob_id})
        elif ok is False:
            res["unconfirmed"].append(f"{ob_id}: {what}: replay did not reproduce ({text[-200:]}) file={path}")
        else:
            res["inconclusive"].append(f"{ob_id}: replay harness failed: {text[-300:]} file={path}")
        return "violated"
    res["inconclusive"].append(f"{ob_id}: too many known-finding exclusions")
    return "unknown"


def finish_engine(res, eng):
    res["queries"] += eng.nchecks
    res["solver_s"] += eng.solver_time
    res["paths"] += eng.npaths
    from .pysym import CrossCheck
    if CrossCheck.enabled:
        st = CrossCheck.stats
        res["cross"] = {k: st[k] for k in ("dumped", "agree", "unknown_or_timeout", "disagree")}
        res["cross_notes"] = list(st["notes"])[:5]
        for k in ("dumped", "agree", "unknown_or_timeout", "disagree"):
            st[k] = 0
        st["notes"] = []
