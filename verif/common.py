"""Protocol shared by all checks: reports, evidence, known findings, replay, parallel map, exit codes."""
from __future__ import annotations

import hashlib
import json
import multiprocessing as mp
import os
import subprocess
import sys
import time
import traceback

VERIF = os.path.dirname(os.path.dirname(os.path.abspath(__file__)))
REPO = os.environ.get("VERIF_REPO", "/repo")
# evidence/ and replays/ under /verif describe runs against /repo itself; a run pointed at another checkout (mutation,
# seeded-change and debugging runs) keeps its files inside that checkout unless told otherwise
_OTHER = os.path.realpath(REPO) != os.path.realpath("/repo")
EVIDENCE_DIR = os.environ.get("VERIF_EVIDENCE_DIR", os.path.join(REPO, ".verif_evidence") if _OTHER else os.path.join(VERIF, "evidence"))
REPLAY_DIR = os.environ.get("VERIF_REPLAY_DIR", os.path.join(REPO, ".verif_replays") if _OTHER else os.path.join(VERIF, "replays"))
KNOWN_FILE = os.path.join(VERIF, "known_findings.json")
NPROC = int(os.environ.get("VERIF_NPROC", "16"))

EXIT_OK, EXIT_VIOLATION, EXIT_INCONCLUSIVE = 0, 1, 2


def seed() -> int:
    try:
        return int(os.environ.get("VERIF_SEED", "0"))
    except ValueError:
        return 0


def add_repo_paths():
    for p in ("plugins/fcp_dbc", "plugins/fcp_can_c", "plugins/fcp_cpp", "plugins/fcp_nop", "src"):
        q = os.path.join(REPO, p)
        if q not in sys.path:
            sys.path.insert(0, q)


# ---------------------------------------------------------------- known findings
class Known:
    """known_findings.json: {"findings": [{id, property, status: open|fixed, what, where, value}], ...}

    `where` is a Python expression over the case's feature dict (evaluated with no builtins but a few helpers);
    `value` (optional) is a Python expression over the harness variables that evaluates to a z3 Bool: the
    *region* of inputs that is known to fail.  Open findings are excluded from the query (negated region added)
    and the solver is asked again, so any different violation is still reported.  Never written at run time."""

    def __init__(self, prop: str):
        self.prop = prop
        self.items = []
        if os.path.exists(KNOWN_FILE):
            data = json.load(open(KNOWN_FILE))
            for f in data.get("findings", []):
                props = f.get("property")
                props = props if isinstance(props, list) else [props]
                if prop in props and f.get("status") == "open":
                    self.items.append(f)

    def matching(self, features: dict):
        out = []
        for f in self.items:
            try:
                ok = eval(f.get("where", "True"), {"__builtins__": {}}, _helpers(features))
            except Exception as e:  # malformed entry is a harness error, never silently a match
                raise RuntimeError(f"known finding {f.get('id')}: cannot evaluate where: {e}")
            if ok:
                out.append(f)
        return out

    @staticmethod
    def region(f, env: dict):
        """z3 Bool for the value region of finding f in variable environment env (True if no `value`)."""
        import z3

        expr = f.get("value")
        if not expr:
            return z3.BoolVal(True)
        ns = dict(env)
        ns.update({"And": z3.And, "Or": z3.Or, "Not": z3.Not, "Extract": z3.Extract, "ULT": z3.ULT, "UGT": z3.UGT,
                   "UGE": z3.UGE, "ULE": z3.ULE, "BoolVal": z3.BoolVal, "If": z3.If})
        return eval(expr, {"__builtins__": {}}, ns)


def _helpers(features):
    ns = dict(features)
    ns.update({"any": any, "all": all, "len": len, "min": min, "max": max, "set": set, "sorted": sorted,
               "range": range, "isinstance": isinstance, "str": str, "int": int, "tuple": tuple, "list": list})
    return ns


# ---------------------------------------------------------------- report / evidence
class Report:
    def __init__(self, prop: str, tier: str, level: str = "model_checking"):
        self.prop, self.tier, self.level = prop, tier, level
        self.t0 = time.time()
        self.queries = 0
        self.solver_s = 0.0
        self.paths = 0
        self.cases = 0
        self.obligations = set()       # distinct (case, obligation) ids that were non-trivial
        self.discharged = 0
        self.violations = []           # confirmed by replay
        self.unconfirmed = []          # solver said sat, replay did not reproduce -> inconclusive
        self.known = {}                # id -> count
        self.known_what = {}
        self.inconclusive = []
        self.samples = []
        self.functions = set()
        self.bounds = {}
        self.stubs = []
        self.assumptions = []
        self.extra = {}
        self.vacuity = {}

    def merge(self, r: dict):
        """Merge a worker result dict."""
        self.cases += 1
        self.queries += r.get("queries", 0)
        self.solver_s += r.get("solver_s", 0.0)
        self.paths += r.get("paths", 0)
        for ob in r.get("obligations", []):
            self.obligations.add(ob)
        self.discharged += r.get("discharged", 0)
        self.functions.update(r.get("functions", []))
        for v in r.get("violations", []):
            self.violations.append(v)
        for v in r.get("unconfirmed", []):
            self.unconfirmed.append(v)
        for k, what in r.get("known", []):
            self.known[k] = self.known.get(k, 0) + 1
            self.known_what[k] = what
        for m in r.get("inconclusive", []):
            self.inconclusive.append(m)
        if r.get("sample") is not None and len(self.samples) < 12:
            self.samples.append(r["sample"])
        for k, v in r.get("vacuity", {}).items():
            self.vacuity[k] = self.vacuity.get(k, 0) + v
        if r.get("cross"):
            c = self.extra.setdefault("second_solver", {"dumped": 0, "agree": 0, "unknown_or_timeout": 0, "disagree": 0,
                                                         "solvers": ["cvc5 1.0.3 (binary)", "z3 4.8.12 (binary)"]})
            for k in ("dumped", "agree", "unknown_or_timeout", "disagree"):
                c[k] += r["cross"][k]
            for n in r.get("cross_notes", []):
                self.inconclusive.append("second solver disagrees: " + n)

    def red_enough(self, n=10) -> bool:
        """A run that already has n confirmed violations is red; the remaining cases are skipped (and said so)."""
        if len(self.violations) >= n:
            self.extra["stopped_early"] = f"{len(self.violations)} confirmed violations; remaining cases skipped"
            return True
        return False

    def finish(self) -> int:
        os.makedirs(EVIDENCE_DIR, exist_ok=True)
        wall = time.time() - self.t0
        for k in sorted(self.known):
            print(f"KNOWN-FINDING: property={self.prop} {k}: {self.known_what[k]} (hit in {self.known[k]} cases)")
        printed = 0
        for v in self.violations:
            if printed < 20:
                print(f"VIOLATION property={self.prop} replay={v['replay']}")
                print(f"  what: {v.get('what', '')}"[:400])
            printed += 1
        if printed > 20:
            print(f"  ... and {printed - 20} more confirmed violations")
        for m in self.unconfirmed[:10]:
            print(f"INCONCLUSIVE property={self.prop} counterexample did not replay: {str(m)[:300]}")
        for m in self.inconclusive[:10]:
            print(f"INCONCLUSIVE property={self.prop} {str(m)[:300]}")
        if self.violations:
            code = EXIT_VIOLATION
        elif self.unconfirmed or self.inconclusive:
            code = EXIT_INCONCLUSIVE
        elif not self.obligations:
            print(f"INCONCLUSIVE property={self.prop} no obligation was generated (vacuous run)")
            code = EXIT_INCONCLUSIVE
        else:
            code = EXIT_OK
        cov = {
            "evaluations": self.queries,
            "distinct_nontrivial": len(self.obligations),
            "rule": self.extra.pop("rule", "one evaluation = one solver query; distinct_nontrivial = distinct "
                                   "(case, obligation) pairs whose formula kept a free variable after simplification"),
            "samples": self.samples or ["(none)"],
            "states": max(1, self.paths),
            "transitions": max(1, self.queries),
            "traces_validated_against_impl": self.extra.pop("traces_validated_against_impl", 0),
            "programs": self.cases,
            "disagreements_checked": len(self.violations) + len(self.unconfirmed) + sum(self.known.values()),
            "obligations": len(self.obligations),
            "discharged": self.discharged,
            "exhaustive": not (self.inconclusive or self.unconfirmed or self.extra.get("stopped_early")
                               or any("cut off" in k and v for k, v in self.vacuity.items())),
            "explanation": self.extra.pop("explanation", "bounded symbolic execution of the real code; see bounds"),
            "cases": self.cases,
            "paths": self.paths,
            "solver_time_s": round(self.solver_s, 3),
            "functions_encoded": sorted(self.functions),
            "bounds": self.bounds,
            "stubs": self.stubs,
            "known_findings_hit": self.known,
            "inconclusive": [str(x)[:300] for x in self.inconclusive[:20]],
            "vacuity_guards": self.vacuity,
            "exit_code": code,
        }
        cov.update(self.extra)
        ev = {
            "property_id": self.prop,
            "tier": self.tier,
            "seed": seed(),
            "level": self.level,
            "coverage": cov,
            "assumptions": self.assumptions,
            "wall_s": round(wall, 3),
            "violations": len(self.violations),
        }
        with open(os.path.join(EVIDENCE_DIR, f"{self.prop}.json"), "w") as f:
            json.dump(ev, f, indent=1, default=str)
        print(f"{self.prop} [{self.tier}] cases={self.cases} paths={self.paths} queries={self.queries} "
              f"obligations={len(self.obligations)} discharged={self.discharged} known={sum(self.known.values())} "
              f"violations={len(self.violations)} inconclusive={len(self.inconclusive) + len(self.unconfirmed)} "
              f"solver={self.solver_s:.1f}s wall={wall:.1f}s exit={code}")
        return code


# ---------------------------------------------------------------- replay files
def write_replay(prop: str, payload: dict) -> str:
    d = os.path.join(REPLAY_DIR, prop)
    os.makedirs(d, exist_ok=True)
    blob = json.dumps(payload, sort_keys=True, default=str)
    name = hashlib.sha1(blob.encode()).hexdigest()[:12] + ".json"
    p = os.path.join(d, name)
    with open(p, "w") as f:
        f.write(json.dumps(payload, indent=1, default=str))
    return p


def run_replay(path: str, timeout=180):
    """Replay a counterexample in a fresh interpreter against the unstubbed code; if that does not reproduce, once more in
    another fresh interpreter with the history priming of the check done first (--primed).
    Returns (reproduced: bool|None, text).  None = replay harness failed."""
    last = (None, "")
    for extra in ([], ["--primed"]):
        try:
            p = subprocess.run([sys.executable, "-m", "verif.replay", path] + extra, cwd=VERIF, capture_output=True,
                               text=True, timeout=timeout, env=dict(os.environ, PYTHONPATH=VERIF))
        except subprocess.TimeoutExpired:
            last = (None, "replay timed out")
            continue
        out = (p.stdout + p.stderr).strip()
        if p.returncode == 1:
            return True, out
        last = (False, out) if p.returncode == 0 else (None, out)
        if p.returncode != 0:
            return last
    return last


# ---------------------------------------------------------------- parallel map
TEMP_DIRS = []      # scratch directories made by a case; removed when the case ends (pool workers never run atexit handlers)


def reg_tmp(path):
    TEMP_DIRS.append(path)
    return path


def _wrap(args):
    import shutil

    fn, item = args
    n0 = len(TEMP_DIRS)
    try:
        return fn(item)
    except Exception as e:
        return {"inconclusive": [f"worker crashed on {str(item)[:200]}: {type(e).__name__}: {e}\n"
                                 + traceback.format_exc()[-1500:]]}
    finally:
        for d in TEMP_DIRS[n0:]:
            shutil.rmtree(d, ignore_errors=True)
        del TEMP_DIRS[n0:]


def pmap(fn, items, nproc=None, chunksize=1):
    """Unordered parallel map over forked workers.  A worker that dies (out of memory, signal) breaks the pool: every case
    that has no result yet is then reported as inconclusive - the run can never hang or turn green because of it."""
    from concurrent.futures import ProcessPoolExecutor, as_completed

    nproc = nproc or NPROC
    items = list(items)
    if nproc <= 1 or len(items) <= 1:
        for it in items:
            yield _wrap((fn, it))
        return
    ex = ProcessPoolExecutor(max_workers=min(nproc, len(items)), mp_context=mp.get_context("fork"))
    futs = {ex.submit(_wrap, (fn, it)): it for it in items}
    try:
        for f in as_completed(futs):
            try:
                yield f.result()
            except BaseException as e:      # BrokenProcessPool and friends
                if isinstance(e, (KeyboardInterrupt, GeneratorExit)):
                    raise
                yield {"inconclusive": [f"worker process lost on {str(futs[f])[:200]}: {type(e).__name__}: {e}"]}
    finally:
        for f in futs:
            f.cancel()
        procs = list(getattr(ex, "_processes", {}).values())
        ex.shutdown(wait=False, cancel_futures=True)
        for pr in procs:
            try:
                pr.terminate()
            except Exception:
                pass
