#!/bin/sh
# usage: run.sh <property id> <quick|thorough>   (cwd-independent; rebuilds everything from /repo's working tree)
cd "$(dirname "$0")"
[ -x .venv/bin/python ] && .venv/bin/python -c "import z3" 2>/dev/null || sh ./setup.sh >/dev/null || exit 2
export PYTHONPATH="$(pwd)"
export PYTHONDONTWRITEBYTECODE=1
exec .venv/bin/python -m verif.check "$1" --tier "${2:-quick}"
