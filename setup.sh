#!/bin/sh
# Build the checker environment offline: overlay venv over /venv (the repository's interpreter and deps) + z3-solver
# from the offline wheelhouse.  Idempotent; run.sh calls it when /verif/.venv is missing.
set -e
cd "$(dirname "$0")"
if [ ! -x .venv/bin/python ] || ! .venv/bin/python -c "import z3" 2>/dev/null; then
    rm -rf .venv
    /venv/bin/python -m venv .venv
    echo "import site; site.addsitedir('/venv/lib/python3.12/site-packages')" > .venv/lib/python3.12/site-packages/_overlay.pth
    PIP_NO_INDEX=1 .venv/bin/pip install -q --no-index --find-links /opt/veriftools/wheels z3-solver
fi
.venv/bin/python -c "import z3, lark, fcp, cantools, jinja2; print('verif env ok: z3', z3.get_version_string())"
