import sys
sys.path[:0]=['/repo/plugins/fcp_dbc','/repo/plugins/fcp_can_c','/repo/plugins/fcp_cpp']
from typing import List, Optional
from fcp.specs.v2 import FcpV2
from fcp.specs.struct import Struct
from fcp.specs.struct_field import StructField
from fcp.specs.enum import Enum, Enumeration
from fcp.specs.impl import Impl
from fcp.specs.type import UnsignedType
from fcp.verifier import make_general_verifier

def new(cls, **kw):
    o = object.__new__(cls)
    for k, v in kw.items():
        object.__setattr__(o, k, v)
    return o

def mk(s1, s2, f1, f2, e1, n1, n2, v1, v2, i1, i2, p1, p2) -> FcpV2:
    fcp = FcpV2()
    U8 = UnsignedType("u8")
    fcp.structs = [new(Struct, name=s1, fields=[new(StructField, name=f1, field_id=0, type=U8, meta=None), new(StructField, name=f2, field_id=1, type=U8, meta=None)], meta=None),
                   new(Struct, name=s2, fields=[new(StructField, name=f1, field_id=0, type=U8, meta=None)], meta=None)]
    fcp.enums = [new(Enum, name=e1, enumeration=[new(Enumeration, name=n1, value=v1, meta=None), new(Enumeration, name=n2, value=v2, meta=None)], meta=None)]
    fcp.impls = [new(Impl, name=i1, protocol=p1, type=s1, fields={}, signals=[], meta=None), new(Impl, name=i2, protocol=p2, type=s2, fields={}, signals=[], meta=None)]
    return fcp

def spec(s1, s2, f1, f2, e1, n1, n2, v1, v2, i1, i2, p1, p2) -> bool:
    return s1 != s2 and s1 != e1 and s2 != e1 and f1 != f2 and n1 != n2 and v1 != v2 and not (i1 == i2 and p1 == p2)

def iff(s1: int, s2: int, f1: int, f2: int, e1: int, n1: int, n2: int, v1: int, v2: int, i1: int, i2: int, p1: int, p2: int) -> bool:
    """
    post: _
    """
    fcp = mk(s1, s2, f1, f2, e1, n1, n2, v1, v2, i1, i2, p1, p2)
    ok = make_general_verifier().verify(fcp).is_ok()
    return ok == spec(s1, s2, f1, f2, e1, n1, n2, v1, v2, i1, i2, p1, p2)
