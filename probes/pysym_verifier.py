import sys, time, z3
sys.path[:0]=['/repo/plugins/fcp_dbc','/repo/plugins/fcp_can_c','/repo/plugins/fcp_cpp']
import pysym
from pysym import Engine, SymBool, SymInt, EngineLimit
from pysym_xform_atoms import SymAtom
from fcp.specs.v2 import FcpV2
from fcp.specs.struct import Struct
from fcp.specs.struct_field import StructField
from fcp.specs.enum import Enum, Enumeration
from fcp.specs.impl import Impl
from fcp.specs.type import UnsignedType
from fcp.verifier import make_general_verifier
import fcp_dbc

A = {n: SymAtom(n) for n in 's1 s2 e1 f1 f2 f3 n1 n2 i1 i2 p1 p2'.split()}
v1, c1 = SymInt.fresh('v1', -2**31, 2**31); v2, c2 = SymInt.fresh('v2', -2**31, 2**31)
id1, c3 = SymInt.fresh('id1', 0, 2047); id2, c4 = SymInt.fresh('id2', 0, 2047)
def mk():
    U8 = UnsignedType("u8")
    fcp = FcpV2()
    fcp.structs = [Struct(name=A['s1'], fields=[StructField(A['f1'], 0, U8), StructField(A['f2'], 1, U8)]), Struct(name=A['s2'], fields=[StructField(A['f3'], 0, U8)])]
    fcp.enums = [Enum(A['e1'], [Enumeration(A['n1'], v1), Enumeration(A['n2'], v2)])]
    fcp.impls = [Impl(A['s1'], 'default', A['s1'], {}, []), Impl(A['s2'], 'default', A['s2'], {}, []),
                 Impl(A['i1'], A['p1'], A['s1'], {'id': id1}, []), Impl(A['i2'], A['p2'], A['s2'], {'id': id2}, [])]
    return fcp
E = lambda a, b: A[a].e == A[b].e
# bindings: default bindings named after their struct with protocol constant 'default'; p1/p2 are atoms assumed != 'default'
spec_general = z3.And(z3.Not(E('s1','s2')), z3.Not(E('s1','e1')), z3.Not(E('s2','e1')), z3.Not(E('f1','f2')), z3.Not(E('n1','n2')), v1.e != v2.e,
                      z3.Not(z3.And(E('i1','i2'), E('p1','p2'))))
spec_dbc = z3.And(spec_general, id1.e != id2.e)   # both bindings refer to existing structs by construction
for label, plugin, spec in (('general', None, spec_general), ('general+dbc', fcp_dbc, spec_dbc)):
    eng = Engine(); t0 = time.time(); res = {}
    def body():
        v = make_general_verifier()
        if plugin: plugin.Generator().register_checks(v)
        return v.verify(mk()).is_ok()
    bad = []
    for kind, ok, pc in eng.explore(body, [c1, c2, c3, c4]):
        if kind == 'exc': bad.append(('EXC', repr(ok)[:120])); continue
        r, m = eng.check(z3.Not(spec == z3.BoolVal(ok)))
        res[(ok, r)] = res.get((ok, r), 0) + 1
        if r == 'sat' and len(bad) < 2: bad.append((ok, str(m)[:300]))
    print(f'{label}: paths={sum(res.values())} {res} wall={time.time()-t0:.2f}s', bad)
