import sys, time, z3
import llsym
from llsym import *
from pysym import Engine

mod = Mod()
parse_module(open('/scratch/cpp1/h.ll').read(), mod)
print('funcs', len(mod.funcs), 'decls', sorted(mod.decls)[:20])
m = Machine(mod)
def znwm(mach, n):
    assert isinstance(n, int)
    a = mach.alloc(n, 16)
    for i in range(n): mach.mem[a + i] = 0xAA  # arbitrary garbage; reading it unmasked would be visible
    return a
m.natives['@_Znwm'] = znwm
m.natives['@_ZdlPv'] = lambda mach, p: None
def thrower(name):
    def f(mach, *a): raise CxxThrow(name)
    return f
for d in mod.decls:
    if 'throw' in d: m.natives[d] = thrower(d)
m.natives['@__gxx_personality_v0'] = None

a = z3.BitVec('a', 8); b = z3.BitVec('b', 16); c = z3.BitVec('c', 32); d = z3.BitVec('d', 8); p0 = z3.BitVec('p0', 8); q0 = z3.BitVec('q0', 16)
out = m.alloc(64)
for i in range(64): m.mem[out + i] = 0
snap = dict(m.mem); brk = m.brk
eng = Engine()
t0 = time.time()
def body():
    m.mem = dict(snap); m.brk = brk
    n = run(m, '@enc_M1', [a, b, FP(c, 32), d, p0, q0, out])
    return n, [m.mem[out + i] for i in range(n)]
assume = [z3.ULE(a, 7), z3.ULE(d, 2), z3.ULE(p0, 31), q0 >= -1024, q0 <= 1023]
res = []
for kind, o, pc in eng.explore(body, assume):
    if kind == 'exc': print('EXC', repr(o)); continue
    n, bs = o
    # canonical: a:3 | b:16 | c:32 | d:2 | p:5 | q:11 = 69 bits -> 9 bytes
    word = z3.Concat(z3.Extract(10, 0, q0), z3.Extract(4, 0, p0), z3.Extract(1, 0, d), c, b, z3.Extract(2, 0, a))
    word = z3.ZeroExt(72 - 69, word)
    got = z3.Concat(*[bv(x, 8) for x in reversed(bs)]) if n == 9 else None
    r, mdl = eng.check(z3.Not(got == word)) if got is not None else ('len=%d' % n, None)
    res.append((n, r, mdl))
print(f'cpp enc: paths={len(res)} steps={m.steps} wall={time.time()-t0:.2f}s solver={eng.solver_time:.2f}s', res)

# decode of arbitrary 9 bytes, then compare with canonical field extraction
inb = m.alloc(16); ins = [z3.BitVec(f'in{i}', 8) for i in range(9)]
outs = [m.alloc(8) for _ in range(6)]
snap = dict(m.mem); brk = m.brk
eng = Engine(); t0 = time.time(); m.steps = 0
def body2():
    m.mem = dict(snap); m.brk = brk
    for i, x in enumerate(ins): m.mem[inb + i] = x
    run(m, '@dec_M1', [inb, 9] + outs)
    return (m.load(outs[0], T('int', n=8)), m.load(outs[1], T('int', n=16)), m.load(outs[2], T('int', n=32)), m.load(outs[3], T('int', n=8)), m.load(outs[4], T('int', n=8)), m.load(outs[5], T('int', n=16)))
res = []
for kind, o, pc in eng.explore(body2, []):
    if kind == 'exc': print('EXC', repr(o)); continue
    word = z3.Concat(*reversed(ins))
    A, B, C, D, P0, Q0 = o
    exp = [z3.ZeroExt(5, z3.Extract(2, 0, word)), z3.Extract(18, 3, word), z3.Extract(50, 19, word), z3.ZeroExt(6, z3.Extract(52, 51, word)), z3.ZeroExt(3, z3.Extract(57, 53, word)), z3.SignExt(5, z3.Extract(68, 58, word))]
    ob = z3.And(*[bv(g, e.size()) == e for g, e in zip(o, exp)])
    r, mdl = eng.check(z3.Not(ob))
    res.append((r, mdl))
print(f'cpp dec: paths={len(res)} steps={m.steps} wall={time.time()-t0:.2f}s solver={eng.solver_time:.2f}s', [r for r, _ in res], res[0][1] if res and res[0][0]=='sat' else '')
