import sys, os
sys.path[:0]=['/repo/plugins/fcp_dbc','/repo/plugins/fcp_can_c','/repo/plugins/fcp_cpp']
from fcp.parser import get_fcp_from_string
from fcp_can_c import Generator
src = sys.argv[1]; out = sys.argv[2]
f = get_fcp_from_string(open(src).read()).unwrap()
g = Generator()
for r in g.generate(f, {"output": out}):
    os.makedirs(os.path.dirname(r["path"]), exist_ok=True)
    open(r["path"], "w").write(r["contents"])
    print(r["path"])
