import sys, time, z3, pathlib, copy
import pysym
from pysym import Engine, SymBool, EngineLimit
from fcp import parser as P
from lark import Tree, Token

NameSort = z3.DeclareSort('Name')
class SymAtom:
    """A declaration name: uninterpreted value, equality only."""
    __class__ = property(lambda s: str)
    def __init__(s, label): s.label = label; s.e = z3.Const(label, NameSort)
    def __eq__(s, o):
        if isinstance(o, SymAtom): return SymBool(s.e == o.e)
        return False
    def __ne__(s, o):
        if isinstance(o, SymAtom): return SymBool(s.e != o.e)
        return True
    def __hash__(s): raise EngineLimit('hash of symbolic name')
    def __format__(s, spec): return f'⟦{s.label}⟧'
    def __repr__(s): return f'⟦{s.label}⟧'
    __str__ = __repr__
class Leaf:  # stands in for a CNAME token: the transformer only reads .value
    def __init__(s, atom): s.value = atom
def sym_str(x=''):
    return x if isinstance(x, SymAtom) else str(x)
P.str = sym_str

template = 'version: "3"\nenum N1 { A = 0, }\nstruct N2 { f @0: u8, }\nstruct N3 { g @0: R1, h @1: Optional[[R2, 2]], }\n'
tree0 = P.fcp_parser.parse(template)
atoms = {}
def subst(t):
    # replace identifier subtrees whose token is N*/R* by a symbolic atom leaf
    if isinstance(t, Tree):
        if t.data == 'identifier' and t.children[0].value[0] in 'NR' and t.children[0].value[1:].isdigit():
            nm = str(t.children[0].value); atoms.setdefault(nm, SymAtom(nm))
            nt = Tree(t.data, [Leaf(atoms[nm])], t.meta); return nt
        return Tree(t.data, [subst(c) for c in t.children], t.meta)
    return t
tree = subst(tree0)
print('atoms:', list(atoms))
decl = ['N1', 'N2', 'N3']; kinds = {'N1': 'enum', 'N2': 'struct', 'N3': 'struct'}
assume = [z3.Distinct(*[atoms[d].e for d in decl])]
eng = Engine(); t0 = time.time(); out = []
def body():
    tr = P.FcpV2Transformer(pathlib.Path('main.fcp'), P.ParserContext(), P.InMemoryFileSystemProxy({pathlib.Path('main.fcp'): template}), P.Logger({}))
    return tr.transform(tree)
for kind, res, pc in eng.explore(body, assume):
    if kind == 'exc': out.append(('EXC', repr(res)[:200])); continue
    # spec: Ok  <=>  R1 in {N1,N2} and R2 in {N1,N2}   (N3 is the enclosing struct: self reference is not "earlier")
    A = atoms
    okspec = z3.And(z3.Or(A['R1'].e == A['N1'].e, A['R1'].e == A['N2'].e), z3.Or(A['R2'].e == A['N1'].e, A['R2'].e == A['N2'].e))
    is_ok = res.is_ok()
    r, m = eng.check(z3.Not(okspec == z3.BoolVal(is_ok)))
    extra = ''
    if is_ok:
        s3 = res.unwrap().structs[1]
        g = s3.fields[0].type; h = s3.fields[1].type.underlying_type.underlying_type
        tag_ok = z3.And((A['R1'].e == A['N1'].e) == z3.BoolVal(type(g).__name__ == 'EnumType'), (A['R2'].e == A['N1'].e) == z3.BoolVal(type(h).__name__ == 'EnumType'))
        extra = ('tags ' + eng.check(z3.Not(tag_ok))[0], type(g).__name__, type(h).__name__)
    else:
        extra = repr(res.err()).replace('\n', ' | ')[:160]
    out.append((is_ok, r, extra))
print(f'paths={len(out)} wall={time.time()-t0:.2f}s checks={eng.nchecks}')
for o in out: print('  ', o)
