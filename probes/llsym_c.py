import sys, time, z3
import llsym
from llsym import *
from pysym import Engine

def load(opt):
    mod = Mod()
    sfx = '.O0.ll' if opt == 0 else '.ll'
    for f in ('ecu_can', 'csp'):
        parse_module(open(f'/scratch/c1/{f}{sfx}').read(), mod)
    return mod

def test_encode(opt):
    t0 = time.time()
    mod = load(opt)
    m = Machine(mod)
    a = z3.BitVec('a', 8); b = z3.BitVec('b', 16); c = z3.BitVec('c', 32); d = z3.BitVec('d', 32)
    msg_ty = mod.named['%struct.CanMsgM1']
    print('CanMsgM1 =', msg_ty, layout(mod, msg_ty), 'CanFrame =', mod.named['%struct.CanFrame'], layout(mod, mod.named['%struct.CanFrame']))
    p = m.alloc(sizeof(mod, msg_ty))
    m.store(p, msg_ty, [a, b, FP(c, 32), d])
    eng = Engine()
    res = []
    def body():
        return run(m, '@can_encode_msg_m1', [p])
    for kind, out, pc in eng.explore(body, [z3.ULE(d, 2), z3.Not(z3.fpIsNaN(z3.fpBVToFP(c, z3.Float32())))]):
        if kind == 'exc': print('EXC', repr(out)); continue
        lo, hi = out
        frame = z3.Concat(bv(hi, 16), bv(lo, 64))  # 80 bits, little endian bytes
        idf = z3.Extract(10, 0, frame); dlc = z3.Extract(14, 11, frame); data = z3.Extract(79, 16, frame)
        exp = z3.ZeroExt(56, a) | (z3.ZeroExt(48, b) << 8) | (z3.ZeroExt(32, c) << 24) | (z3.ZeroExt(32, d & 3) << 56)
        ob = z3.And(idf == 10, dlc == 8, data == exp)
        r, mdl = eng.check(z3.Not(ob))
        res.append((r, mdl))
    print(f'encode O{opt}: paths={len(res)} steps={m.steps} ub={m.ub} wall={time.time()-t0:.2f}s solver={eng.solver_time:.2f}s ->', res)

def test_sched(opt):
    t0 = time.time()
    mod = load(opt)
    m = Machine(mod)
    sent = []
    def cb(mach, framep):
        sent.append([mach.mem[framep + i] for i in range(10)])
    m.natives['@__send'] = cb
    m.gaddr['@__send'] = 0xF00; m.fn_by_addr[0xF00] = '@__send'
    fn = '@can_send_ecu_msgs_scheduled'
    lc = z3.BitVec('last_call', 32); ls0 = z3.BitVec('last_send0', 32); ls1 = z3.BitVec('last_send1', 32); t = z3.BitVec('t', 32)
    I32 = T('int', n=32)
    names = [g for g in mod.globals if g.startswith(fn + '.')]
    print('statics:', names)
    dev_ty = mod.named['%struct.CanDeviceEcu']
    dev = m.alloc(sizeof(mod, dev_ty))
    a = z3.BitVec('a', 8); b = z3.BitVec('b', 16); c = z3.BitVec('c', 32); d = z3.BitVec('d', 32); x = z3.BitVec('x', 8)
    m.store(dev, dev_ty, [[a, b, FP(c, 32), d], [x]])
    snapshot = dict(m.mem)
    eng = Engine()
    out = []
    def body():
        m.mem = dict(snapshot); sent.clear()
        m.store(m.gaddr[fn + '.last_call_t'], I32, lc)
        if fn + '.last_send_t' in m.gaddr:
            m.store(m.gaddr[fn + '.last_send_t'], T('arr', n=2, e=I32), [ls0, ls1])
        else:
            m.store(m.gaddr[fn + '.last_send_t.0'], I32, ls0)
        run(m, fn, [dev, t, 0xF00])
        post_lc = m.load(m.gaddr[fn + '.last_call_t'], I32)
        post_ls0 = m.load(m.gaddr[fn + ('.last_send_t' if fn + '.last_send_t' in m.gaddr else '.last_send_t.0')], I32)
        return len(sent), post_lc, post_ls0
    for kind, o, pc in eng.explore(body, [z3.Not(z3.fpIsNaN(z3.fpBVToFP(c, z3.Float32())))]):
        # reference automaton (period 15 for msg0, -1 for msg1)
        send0 = z3.And(t != lc, z3.UGE(t - ls0, 15))
        nsent, plc, pls0 = o
        ob = z3.And(z3.BoolVal(nsent == 1) == send0, bv(plc, 32) == t, bv(pls0, 32) == z3.If(send0, t, ls0))
        r, mdl = eng.check(z3.Not(ob))
        out.append((nsent, r))
    print(f'sched O{opt}: paths={len(out)} steps={m.steps} wall={time.time()-t0:.2f}s ->', out)

for o in (1, 0):
    test_encode(o)
    test_sched(o)
