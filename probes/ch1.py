from fcp.parser import get_fcp_from_string
from fcp.serde import encode, decode, _Buffer

F8 = get_fcp_from_string('version: "3"\nstruct S { a @0: i8, }\n').unwrap()
F2 = get_fcp_from_string('version: "3"\nstruct S { a @0: u3, b @1: i13, c @2: u16,}\n').unwrap()

def rt_i8(a: int) -> bool:
    """
    pre: -128 <= a <= 127
    post: _
    """
    return decode(F8, 'S', encode(F8, 'S', {'a': a})) == {'a': a}

def rt_3(a: int, b: int, c: int) -> bool:
    """
    pre: 0 <= a <= 7
    pre: -4096 < b <= 4095
    pre: 0 <= c <= 65535
    post: _
    """
    return decode(F2, 'S', encode(F2, 'S', {'a': a, 'b': b, 'c': c})) == {'a': a, 'b': b, 'c': c}
