import sys, time, z3, itertools
sys.path[:0]=['/repo/plugins/fcp_dbc','/repo/plugins/fcp_can_c','/repo/plugins/fcp_cpp']
import pysym
from pysym import Engine, SymInt, SymBool, z3of, W
from fcp.parser import get_fcp_from_string
from fcp import encoding
from fcp.specs import enum as enum_mod
from fcp.encoding import make_encoder, PackedEncoderContext

# --- stub for libm at the C boundary: log2 on a symbolic positive int, observed only through floor/ceil/+1
class SymLog2:
    def __init__(s, m, add=0): s.m, s.add = m, add
    def __add__(s, k): return SymLog2(s.m, s.add + k)
    def _floorlog(s):
        # floor(log2(m)) = k  <=>  2^k <= m < 2^(k+1)   (contract of math.log2: monotone, exact at powers of two; m < 2^47)
        e = z3.BitVecVal(0, W)
        for k in range(1, 48):
            e = z3.If(s.m.e >= (1 << k), z3.BitVecVal(k, W), e)
        return e
    def __floor__(s):
        return SymInt._mk(s._floorlog() + s.add, s.add, 47 + s.add)
    def __ceil__(s):
        pow2 = (s.m.e & (s.m.e - 1)) == 0
        return SymInt._mk(z3.If(pow2, s._floorlog(), s._floorlog() + 1) + s.add, s.add, 48 + s.add)
import math
class MathStub:
    @staticmethod
    def log2(x): return SymLog2(x) if isinstance(x, SymInt) else math.log2(x)
    floor = staticmethod(math.floor); ceil = staticmethod(math.ceil)
def rpow(self, base):
    assert base == 2
    return SymInt._mk(z3.BitVecVal(1, W) << self.e, 1, 1 << self.hi)
SymInt.__rpow__ = rpow
enum_mod.math = MathStub
encoding.log2 = MathStub.log2; encoding.int = pysym.sym_int; encoding.ceil = math.ceil
def sym_max(it, default=None):
    it = list(it); cur = it[0] if it else default
    for x in it[1:]:
        if x > cur: cur = x
    return cur
enum_mod.max = sym_max

src = 'version: "3"\nenum E { A = 0, B = 1, }\nstruct In { p @0: u5, q @1: E, }\nstruct S { a @0: u3, b @1: In, c @2: [i13, 2], d @3: E, }\nimpl can for S { id: 1, }\n'
fcp = get_fcp_from_string(src).unwrap()
S = fcp.get_struct('S').unwrap(); E = fcp.get_enum('E').unwrap()
ids = [SymInt.fresh(f'id{i}', 0, 2**31)[0] for i in range(4)]
emax, c_emax = SymInt.fresh('emax', 1, 2**32 - 1)
assume = [c_emax] + [z3.And(i.e >= 0, i.e <= 2**31) for i in ids] + [z3.Distinct(*[i.e for i in ids])]
for f, i in zip(S.fields, ids): f.field_id = i
E.enumeration[1].value = emax
impl = [i for i in fcp.impls if i.protocol == 'can'][0]
eng = Engine(); t0 = time.time(); res = []
def body():
    enc = make_encoder('packed', fcp, PackedEncoderContext().with_unroll_arrays(True))
    return [(v.name, v.bitstart, v.bitlength) for v in enc.generate(impl)]
for kind, out, pc in eng.explore(body, assume):
    if kind == 'exc': res.append(('EXC', repr(out))); continue
    # spec: tiling + widths; enum wire width = bit_length(max) ; order = ascending id
    ob = [z3of(out[0][1]) == 0]
    for (n1, s1, l1), (n2, s2, l2) in zip(out, out[1:]): ob.append(z3of(s2) == z3of(s1) + z3of(l1))
    bl = z3.BitVecVal(1, W)
    for k in range(1, 33): bl = z3.If(emax.e >= (1 << k), z3.BitVecVal(k + 1, W), bl)
    wid = {'a': 3, 'b::p': 5, 'b::q': bl, 'c_0': 13, 'c_1': 13, 'd': bl}
    for n, s, l in out: ob.append(z3of(l) == (wid[n] if not isinstance(wid[n], int) else z3.BitVecVal(wid[n], W)))
    r, m = eng.check(z3.Not(z3.And(*ob)))
    res.append(([n for n, _, _ in out], r, None if m is None else m[z3.BitVec('emax', W)]))
print(f'layout: paths={len(res)} checks={eng.nchecks} wall={time.time()-t0:.2f}s solver={eng.solver_time:.2f}s')
for r in res[:4]: print('  ', r)
print('   ...', sum(1 for r in res if r[1] == 'sat'), 'sat of', len(res))
