#include "fcp.h"
using namespace fcp;
extern "C" unsigned long enc_M2(unsigned char a, int has_o, short o, unsigned long nd, const unsigned char* d, unsigned char* out) {
    std::vector<M2::DType> ; 
    std::vector<Unsigned<std::uint8_t,5>> dv;
    for (unsigned long i=0;i<nd;i++) dv.push_back(Unsigned<std::uint8_t,5>(d[i]));
    M2 m{M2::AType(a), has_o ? M2::OType::Some(Signed<std::int16_t,13>(o)) : M2::OType::None(), M2::DType(dv)};
    Buffer buf{0};
    m.Encode(buf);
    auto v = buf.GetData();
    for (unsigned long i=0;i<v.size();i++) out[i]=v[i];
    return v.size();
}
extern "C" unsigned long enc_M3(unsigned char a, unsigned long ns, const char* s, unsigned char* out) {
    M3 m{M3::AType(a), M3::SType(std::string(s, ns))};
    Buffer buf{0};
    m.Encode(buf);
    auto v = buf.GetData();
    for (unsigned long i=0;i<v.size();i++) out[i]=v[i];
    return v.size();
}
