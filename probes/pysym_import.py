import sys, time, z3, pathlib, io
import pysym
from pysym import Engine, SymBool, EngineLimit
from pysym_xform_atoms import SymAtom
from fcp import parser as P
from lark import Tree

class Leaf:
    def __init__(s, atom): s.value = atom
P.str = lambda x='': x if isinstance(x, SymAtom) else str(x)
atoms = {}
def subst(t):
    if isinstance(t, Tree):
        if t.data == 'identifier' and t.children[0].value[0] in 'NR' and t.children[0].value[1:].isdigit():
            nm = str(t.children[0].value); atoms.setdefault(nm, SymAtom(nm))
            return Tree(t.data, [Leaf(atoms[nm])], t.meta)
        return Tree(t.data, [subst(c) for c in t.children], t.meta)
    return t
files = {
  'main.fcp': 'version: "3"\nstruct N1 { a @0: u8, }\nmod m;\nstruct N4 { x @0: R1, y @1: R2, }\n',
  'm.fcp':    'version: "3"\nenum N2 { A = 0, }\nstruct N3 { b @0: N2, }\nservice Sv @1 { method mm(N3) @0 returns N3, }\n',
}
real_parser = P.fcp_parser
class ParserStub:  # Earley parser boundary: text -> tree parsed for real, then identifier leaves made symbolic
    def parse(self, text): return subst(real_parser.parse(text))
class FS(P.IFileSystemProxy):
    def read(self, filename): return files[pathlib.Path(filename).name]
def open_stub(filename, *a, **k): return io.StringIO(files[pathlib.Path(filename).name])
P.fcp_parser = ParserStub(); P.open = open_stub
tree = P.fcp_parser.parse(files['main.fcp'])
A = lambda n: atoms[n].e
eng = Engine(); t0 = time.time(); out = []
def body():
    tr = P.FcpV2Transformer(pathlib.Path('main.fcp'), P.ParserContext(), FS(), P.Logger({}))
    return tr.transform(tree)
P.fcp_parser.parse(files['m.fcp'])  # populate atoms
assume = [z3.Distinct(A('N1'), A('N2'), A('N3'), A('N4'))]
for kind, res, pc in eng.explore(body, assume):
    if kind == 'exc': out.append(('EXC', repr(res)[:200])); continue
    earlier = ['N1', 'N2', 'N3']   # N2, N3 arrive through the import that precedes N4
    okspec = z3.And(*[z3.Or(*[A(r) == A(d) for d in earlier]) for r in ('R1', 'R2')])
    ok = res.is_ok()
    r, _ = eng.check(z3.Not(okspec == z3.BoolVal(ok)))
    info = ''
    if ok:
        f = res.unwrap(); info = dict(structs=len(f.structs), enums=len(f.enums), impls=len(f.impls), services=len(f.services))
    else: info = repr(res.err()).replace('\n', ' | ')[:110]
    out.append((ok, r, info))
print(f'paths={len(out)} wall={time.time()-t0:.2f}s')
for o in out[:6]: print('  ', o)
print('  ...', sum(1 for o in out if o[0] is True), 'Ok paths,', sum(1 for o in out if o[1] != 'unsat'), 'obligations not unsat')
