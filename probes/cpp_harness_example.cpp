#include "fcp.h"
using namespace fcp;
extern "C" unsigned long enc_M1(unsigned char a, short b, float c, unsigned char d, unsigned char p0, short q0, unsigned char* out) {
    M1 m{M1::AType(a), M1::BType(b), M1::CType(c), M1::DType(d), M1::EType{Inner::PType(p0), Inner::QType(q0)}};
    Buffer buf{0};
    m.Encode(buf);
    auto v = buf.GetData();
    for (unsigned long i=0;i<v.size();i++) out[i]=v[i];
    return v.size();
}
extern "C" void dec_M1(const unsigned char* in, unsigned long n, unsigned char* a, short* b, float* c, unsigned char* d, unsigned char* p0, short* q0) {
    Buffer buf{in, in+n};
    auto m = M1::Decode(buf);
    *a = m.GetA().GetData(); *b = m.GetB().GetData(); *c = m.GetC().GetData(); *d = m.GetD().GetData();
    *p0 = m.GetE().GetP().GetData(); *q0 = m.GetE().GetQ().GetData();
}
