from fcp.parser import get_fcp_from_string
from fcp.serde import encode, decode, _Buffer

F1 = get_fcp_from_string('version: "3"\nstruct S { a @0: u3, }\n').unwrap()
F16 = get_fcp_from_string('version: "3"\nstruct S { a @0: u16, }\n').unwrap()

def rt_u3(a: int) -> bool:
    """
    pre: 0 <= a <= 7
    post: _
    """
    return decode(F1, 'S', encode(F1, 'S', {'a': a})) == {'a': a}

def rt_u16(a: int) -> bool:
    """
    pre: 0 <= a <= 65535
    post: _
    """
    return decode(F16, 'S', encode(F16, 'S', {'a': a})) == {'a': a}
