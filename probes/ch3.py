import sys
sys.path[:0]=['/repo/plugins/fcp_dbc','/repo/plugins/fcp_can_c','/repo/plugins/fcp_cpp']
from typing import List, Optional
from fcp.specs.v2 import FcpV2
from fcp.specs.struct import Struct
from fcp.specs.struct_field import StructField
from fcp.specs.enum import Enum, Enumeration
from fcp.specs.impl import Impl
from fcp.specs.type import UnsignedType
from fcp.verifier import make_general_verifier

def mk(s1: str, s2: str, f1: str, f2: str, e1: str, n1: str, n2: str, v1: int, v2: int) -> FcpV2:
    fcp = FcpV2()
    fcp.structs = [Struct(name=s1, fields=[StructField(f1, 0, UnsignedType("u8")), StructField(f2, 1, UnsignedType("u8"))]),
                   Struct(name=s2, fields=[StructField(f1, 0, UnsignedType("u8"))])]
    fcp.enums = [Enum(e1, [Enumeration(n1, v1), Enumeration(n2, v2)])]
    fcp.impls = [Impl(s1, "default", s1, {}, []), Impl(s2, "default", s2, {}, [])]
    return fcp

def spec(s1, s2, f1, f2, e1, n1, n2, v1, v2) -> bool:
    return s1 != s2 and s1 != e1 and s2 != e1 and f1 != f2 and n1 != n2 and v1 != v2

def iff(s1: str, s2: str, f1: str, f2: str, e1: str, n1: str, n2: str, v1: int, v2: int) -> bool:
    """
    pre: len(s1) <= 2 and len(s2) <= 2 and len(f1) <= 2 and len(f2) <= 2 and len(e1) <= 2 and len(n1) <= 2 and len(n2) <= 2
    post: _
    """
    fcp = mk(s1, s2, f1, f2, e1, n1, n2, v1, v2)
    ok = make_general_verifier().verify(fcp).is_ok()
    return ok == spec(s1, s2, f1, f2, e1, n1, n2, v1, v2)

def reach(s1: str, s2: str, f1: str, f2: str, e1: str, n1: str, n2: str, v1: int, v2: int) -> bool:
    """
    pre: len(s1) <= 2 and len(s2) <= 2 and len(f1) <= 2 and len(f2) <= 2 and len(e1) <= 2 and len(n1) <= 2 and len(n2) <= 2
    post: not _
    """
    fcp = mk(s1, s2, f1, f2, e1, n1, n2, v1, v2)
    ok = make_general_verifier().verify(fcp).is_ok()
    return ok

def merge_complete(n: int) -> bool:
    """
    post: _
    """
    return True
