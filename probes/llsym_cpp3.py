import sys, time, z3
import llsym
from llsym import *
from pysym import Engine
mod = Mod(); parse_module(open('/scratch/cpp3/h.ll').read(), mod)
m = Machine(mod)
def znwm(mach, n):
    a = mach.alloc(n, 16)
    for i in range(n): mach.mem[a + i] = 0xAA
    return a
m.natives['@_Znwm'] = znwm
m.natives['@_ZdlPv'] = lambda mach, p: None
def m_create(mach, this, cap_ref, old):
    cap = mach.load(cap_ref, T('int', n=64))
    if cap > old and cap < 2 * old:
        cap = 2 * old; mach.store(cap_ref, T('int', n=64), cap)
    return znwm(mach, cap + 1)
m.natives['@_ZNSt7__cxx1112basic_stringIcSt11char_traitsIcESaIcEE9_M_createERmm'] = m_create
out = m.alloc(64)
for i in range(64): m.mem[out + i] = 0
def canon_bits(fields):  # [(bv, nbits)] LSB-first
    total = sum(n for _, n in fields)
    word = z3.Concat(*[z3.Extract(n - 1, 0, b) if b.size() > n else z3.ZeroExt(n - b.size(), b) for b, n in reversed(fields)])
    pad = (-total) % 8
    return z3.ZeroExt(pad, word) if pad else word, (total + pad) // 8

a = z3.BitVec('a', 8); o = z3.BitVec('o', 16)
for has_o in (0, 1):
  for nd in (0, 1, 3):
    dptr = m.alloc(8); ds = [z3.BitVec(f'd{i}', 8) for i in range(nd)]
    for i, x in enumerate(ds): m.mem[dptr + i] = x
    snap = dict(m.mem); brk = m.brk; eng = Engine(); t0 = time.time(); m.steps = 0
    def body():
        m.mem = dict(snap); m.brk = brk
        n = run(m, '@enc_M2', [a, has_o, o, nd, dptr, out])
        return n, [m.mem[out + i] for i in range(n)]
    assume = [z3.ULE(a, 7), o >= -4096, o <= 4095] + [z3.ULE(x, 31) for x in ds]
    for kind, r, pc in eng.explore(body, assume):
        if kind == 'exc': print('EXC', repr(r)); continue
        n, bs = r
        fields = [(a, 3), (z3.BitVecVal(has_o, 8), 8)] + ([(o, 13)] if has_o else []) + [(z3.BitVecVal(nd, 32), 32)] + [(x, 5) for x in ds]
        exp, nbytes = canon_bits(fields)
        got = z3.Concat(*[bv(x, 8) for x in reversed(bs)])
        res = eng.check(z3.Not(got == exp))[0] if n == nbytes else f'len {n} != {nbytes}'
        print(f'M2 has_o={has_o} nd={nd}: {res} steps={m.steps} wall={time.time()-t0:.2f}s')
for ns in (0, 2, 20):
    sptr = m.alloc(32); cs = [z3.BitVec(f'c{i}', 8) for i in range(ns)]
    for i, x in enumerate(cs): m.mem[sptr + i] = x
    snap = dict(m.mem); brk = m.brk; eng = Engine(); t0 = time.time(); m.steps = 0
    def body():
        m.mem = dict(snap); m.brk = brk
        n = run(m, '@enc_M3', [a, ns, sptr, out])
        return n, [m.mem[out + i] for i in range(n)]
    try:
        for kind, r, pc in eng.explore(body, [z3.ULE(a, 7)] + [z3.ULE(x, 127) for x in cs]):
            if kind == 'exc': print('EXC', repr(r)); continue
            n, bs = r
            exp, nbytes = canon_bits([(a, 3), (z3.BitVecVal(ns, 32), 32)] + [(x, 8) for x in cs])
            got = z3.Concat(*[bv(x, 8) for x in reversed(bs)])
            res = eng.check(z3.Not(got == exp))[0] if n == nbytes else f'len {n} != {nbytes}'
            print(f'M3 ns={ns}: {res} steps={m.steps} wall={time.time()-t0:.2f}s')
    except EngineLimit as e:
        print('M3 EngineLimit', e)
