import z3
from pysym import SymBool, EngineLimit
NameSort = z3.DeclareSort('Name')
class SymAtom:
    """A declaration name: uninterpreted value, equality only."""
    __class__ = property(lambda s: str)
    def __init__(s, label): s.label = label; s.e = z3.Const(label, NameSort)
    def __eq__(s, o):
        if isinstance(o, SymAtom): return SymBool(s.e == o.e)
        return False
    def __ne__(s, o):
        if isinstance(o, SymAtom): return SymBool(s.e != o.e)
        return True
    def __hash__(s): raise EngineLimit('hash of symbolic name')
    def __format__(s, spec): return f'⟦{s.label}⟧'
    def __repr__(s): return f'⟦{s.label}⟧'
    __str__ = __repr__
class Leaf:  # stands in for a CNAME token: the transformer only reads .value
    def __init__(s, atom): s.value = atom
def sym_str(x=''):
    return x if isinstance(x, SymAtom) else str(x)
