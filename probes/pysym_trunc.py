import sys, time, z3
import pysym
from pysym import Engine, SymInt, SymBool, EngineLimit, z3of, W
from fcp.parser import get_fcp_from_string
from fcp import serde
pysym.install(serde)

BUDGET = [0, 0]
class WorkBound(Exception): pass
def sym_range(*a):
    if len(a) == 1 and isinstance(a[0], SymInt):
        n = a[0]
        def gen():
            i = 0
            while i < n:          # SymBool -> fork "more elements" / "stop"
                if i > BUDGET[0]: raise WorkBound(f'{i} loop iterations on a {BUDGET[1]}-byte input')
                yield i; i += 1
        return gen()
    return range(*a)
serde.range = sym_range

def index_fork(self, cap=64):
    """Concretise at a C boundary by forking over feasible values (bounded by cap)."""
    eng = Engine.cur
    tried = 0
    while True:
        r, m = eng.check()
        v = m.eval(self.e, model_completion=True).as_signed_long()
        if (self == v):  # fork: this value or another one
            return v
        tried += 1
        if tried > cap: raise EngineLimit('too many values at C boundary')
SymInt.__index__ = index_fork

def run(src, n, label):
    fcp = get_fcp_from_string('version: "3"\n' + src).unwrap()
    bs = []; assume = []
    for i in range(n):
        b, c = SymInt.fresh(f'b{i}', 0, 255); bs.append(b); assume.append(c)
    BUDGET[0] = 8 * n + 8; BUDGET[1] = n
    eng = Engine(); t0 = time.time(); stats = {'raise': 0, 'ok': 0, 'fabricated': 0, 'limit': 0}; wit = None
    def body():
        return serde.decode(fcp, 'S', list(bs))
    try:
        for kind, out, pc in eng.explore(body, assume):
            if kind == 'exc':
                if isinstance(out, WorkBound): stats['workbound'] = stats.get('workbound', 0) + 1; wit = wit or str(out)
                else: stats['raise'] += 1
                continue
            # returned a value: it must be re-encodable into at most n bytes (built only from bytes that exist)
            try:
                enc = serde.encode(fcp, 'S', out)
                if len(enc) <= n: stats['ok'] += 1
                else:
                    stats['fabricated'] += 1
                    if wit is None:
                        r, m = eng.check(); wit = ([m.eval(b.e, model_completion=True).as_long() for b in bs], len(enc))
            except Exception as e:
                stats['fabricated'] += 1; wit = wit or repr(e)
    except EngineLimit as e:
        stats['limit'] += 1; wit = wit or str(e)
    print(f'{label} n={n}: {stats} checks={eng.nchecks} wall={time.time()-t0:.2f}s witness={wit}')

import sys
cases = [('struct S { a @0: [u8], }', 6, '[u8]'),
 ('struct S { a @0: u8, b @1: Optional[i16], }', 3, 'u8,Optional[i16]'),
 ('struct S { a @0: [[u8, 0]], }', 4, '[[u8,0]] (zero-size elements)'),
 ('struct S { a @0: str, }', 6, 'str')]
run(*cases[int(sys.argv[1])])
