"""Feasibility prototype: proxy-based symbolic execution of real Python code over z3 bit-vectors."""
import z3, time

W = 96  # bit-vector width standing in for Python's unbounded int; every op is interval-checked


class EngineLimit(Exception):
    pass


class PathAbort(BaseException):
    pass


class Engine:
    cur = None

    def __init__(self):
        self.decisions = []
        self.pos = 0
        self.pc = []
        self.nchecks = 0
        self.solver_time = 0.0
        self.s = z3.Solver()

    def check(self, *extra):
        t = time.time()
        self.s.push()
        for c in self.pc:
            self.s.add(c)
        for c in extra:
            self.s.add(c)
        r = self.s.check()
        m = self.s.model() if r == z3.sat else None
        self.s.pop()
        self.nchecks += 1
        self.solver_time += time.time() - t
        return str(r), m

    def branch(self, cond):
        cond = z3.simplify(cond)
        if z3.is_true(cond):
            return True
        if z3.is_false(cond):
            return False
        if self.pos < len(self.decisions):
            take = self.decisions[self.pos][0]
        else:
            rt, _ = self.check(cond)
            rf, _ = self.check(z3.Not(cond))
            if 'unknown' in (rt, rf):
                raise EngineLimit('solver unknown')
            if rt == 'sat' and rf == 'sat':
                self.decisions.append([True, True])
                take = True
            elif rt == 'sat':
                self.decisions.append([True, False])
                take = True
            elif rf == 'sat':
                self.decisions.append([False, False])
                take = False
            else:
                raise PathAbort()
        self.pos += 1
        self.pc.append(cond if take else z3.Not(cond))
        return take

    def explore(self, fn, assumptions):
        """Yield (kind, value, pc) for every feasible path of fn()."""
        while True:
            self.pos = 0
            self.pc = list(assumptions)
            Engine.cur = self
            try:
                out = ('ret', fn())
            except PathAbort:
                out = None
            except EngineLimit:
                raise
            except Exception as e:  # real code raised
                out = ('exc', e)
            if out is not None:
                yield out[0], out[1], list(self.pc)
            while self.decisions and not self.decisions[-1][1]:
                self.decisions.pop()
            if not self.decisions:
                return
            self.decisions[-1] = [False, False]


def _bits(n):
    return n.bit_length() + 1


class SymBool:
    def __init__(self, e):
        self.e = e

    def __bool__(self):
        return Engine.cur.branch(self.e)


class SymInt:
    __slots__ = ('e', 'lo', 'hi')
    # isinstance(x, int) is answered through __class__ (as CrossHair does) so run-time type checkers
    # (beartype/pyserde strict) accept the proxy; C code that needs a real int still fails loudly via __index__.
    __class__ = property(lambda s: int)

    def __init__(self, e, lo, hi):
        if max(_bits(lo), _bits(hi)) > W - 1:
            raise EngineLimit(f'interval [{lo},{hi}] exceeds {W}-bit model')
        self.e, self.lo, self.hi = e, lo, hi

    @staticmethod
    def fresh(name, lo, hi):
        v = z3.BitVec(name, W)
        return SymInt(v, lo, hi), z3.And(v >= lo, v <= hi)

    @staticmethod
    def lift(x):
        if isinstance(x, SymInt):
            return x
        if isinstance(x, bool):
            x = int(x)
        if isinstance(x, int):
            return SymInt(z3.BitVecVal(x, W), x, x)
        raise TypeError(type(x))

    def _mk(e, lo, hi):
        e = z3.simplify(e)
        if z3.is_bv_value(e):
            return e.as_signed_long()
        return SymInt(e, lo, hi)

    def __rshift__(self, k):
        assert isinstance(k, int) and k >= 0
        return SymInt._mk(self.e >> k, self.lo >> k, self.hi >> k)

    def __lshift__(self, k):
        assert isinstance(k, int) and k >= 0
        return SymInt._mk(self.e << k, self.lo << k, self.hi << k)

    def _bw(self, o, op):
        o = SymInt.lift(o)
        n = max(_bits(self.lo), _bits(self.hi), _bits(o.lo), _bits(o.hi))
        if self.lo >= 0 and o.lo >= 0:
            lo, hi = 0, (1 << (n - 1)) - 1
            if op == 'and':
                hi = min(self.hi, o.hi)
        elif op == 'and' and (self.lo >= 0 or o.lo >= 0):
            lo, hi = 0, (self.hi if self.lo >= 0 else o.hi)
        else:
            lo, hi = -(1 << (n - 1)), (1 << (n - 1)) - 1
        e = {'and': self.e & o.e, 'or': self.e | o.e, 'xor': self.e ^ o.e}[op]
        return SymInt._mk(e, lo, hi)

    def __and__(self, o): return self._bw(o, 'and')
    __rand__ = __and__
    def __or__(self, o): return self._bw(o, 'or')
    __ror__ = __or__
    def __xor__(self, o): return self._bw(o, 'xor')
    __rxor__ = __xor__

    def __add__(self, o):
        o = SymInt.lift(o)
        return SymInt._mk(self.e + o.e, self.lo + o.lo, self.hi + o.hi)
    __radd__ = __add__

    def __sub__(self, o):
        o = SymInt.lift(o)
        return SymInt._mk(self.e - o.e, self.lo - o.hi, self.hi - o.lo)

    def __rsub__(self, o):
        return SymInt.lift(o).__sub__(self)

    def __neg__(self):
        return SymInt._mk(-self.e, -self.hi, -self.lo)

    def __mul__(self, k):
        assert isinstance(k, int)
        a, b = self.lo * k, self.hi * k
        return SymInt._mk(self.e * k, min(a, b), max(a, b))
    __rmul__ = __mul__

    def _cmp(self, o, f):
        if isinstance(o, float):
            raise TypeError('float compare handled by caller')
        o = SymInt.lift(o)
        return SymBool(f(self.e, o.e))

    def __gt__(self, o):
        if isinstance(o, float):  # int > float: exact comparison semantics of CPython
            import math
            return self > math.floor(o)  # x > f  <=>  x > floor(f) for integer x
        return self._cmp(o, lambda a, b: a > b)

    def __ge__(self, o): return self._cmp(o, lambda a, b: a >= b)
    def __lt__(self, o): return self._cmp(o, lambda a, b: a < b)
    def __le__(self, o): return self._cmp(o, lambda a, b: a <= b)
    def __eq__(self, o):
        if not isinstance(o, (int, SymInt)) or o is None: return False if o is None or not isinstance(o, float) else NotImplemented
        return self._cmp(o, lambda a, b: a == b)
    def __ne__(self, o):
        if not isinstance(o, (int, SymInt)) or o is None: return True if o is None or not isinstance(o, float) else NotImplemented
        return self._cmp(o, lambda a, b: a != b)
    __hash__ = None

    def __bool__(self):
        return Engine.cur.branch(self.e != 0)

    def __index__(self):
        raise EngineLimit('symbolic int used at a C boundary (__index__)')


def z3of(x):
    return SymInt.lift(x).e


# ---- stubs for builtins living at the C boundary, injected into the module under test ----
def sym_int(x=0, *a):
    if isinstance(x, SymInt):
        return x
    return int(x, *a)


class SymByteArray(list):
    def decode(self, enc):
        assert enc == 'ascii'
        for b in self:
            if b > 127:
                raise UnicodeDecodeError('ascii', b'', 0, 1, 'ordinal not in range(128)')
        return SymStr(self)


def sym_bytearray(x=()):
    out = SymByteArray()
    for b in x:
        if isinstance(b, SymInt):
            if not (b.lo >= 0 and b.hi <= 255):
                if (b < 0) or (b > 255):
                    raise ValueError('byte must be in range(0, 256)')
        else:
            if not 0 <= b <= 255:
                raise ValueError('byte must be in range(0, 256)')
        out.append(b)
    return out


class SymStr(list):
    """A string of concrete length whose code points may be symbolic."""
    def __eq__(self, o):
        raise EngineLimit('use obligations')
    __hash__ = None


def sym_ord(c):
    if isinstance(c, (SymInt, int)) and not isinstance(c, str):
        return c
    return ord(c)


class SymFloat:
    def __init__(self, bits_e, nbits):
        self.e, self.nbits = bits_e, nbits


def sym_float(x=0.0):
    if isinstance(x, SymFloat):
        return x
    return float(x)


class StructStub:
    error = __import__('struct').error

    @staticmethod
    def pack(fmt, v):
        import struct as _s
        n = {'f': 4, 'd': 8}[fmt]
        if not isinstance(v, SymFloat):
            return _s.pack(fmt, v)
        assert v.nbits == 8 * n
        return [SymInt._mk(z3.ZeroExt(W - 8, z3.Extract(8 * i + 7, 8 * i, v.e)), 0, 255) for i in range(n)]

    @staticmethod
    def unpack(fmt, b):
        import struct as _s
        n = {'f': 4, 'd': 8}[fmt]
        if len(b) != n:
            raise _s.error(f'unpack requires a buffer of {n} bytes')
        if all(isinstance(x, int) for x in b):
            return _s.unpack(fmt, bytes(b))
        parts = [z3.Extract(7, 0, z3of(x)) for x in reversed(b)]
        return (SymFloat(z3.simplify(z3.Concat(*parts)), 8 * n),)


def install(mod):
    mod.int = sym_int
    mod.bytearray = sym_bytearray
    mod.ord = sym_ord
    mod.float = sym_float
    mod.struct = StructStub
