import sys
sys.path[:0]=['/repo/plugins/fcp_dbc','/repo/plugins/fcp_can_c','/repo/plugins/fcp_cpp']
from fcp.parser import get_fcp_from_string
from fcp.serde import encode, decode
from fcp.error import Logger
def P(src):
    r = get_fcp_from_string(src)
    return r
def try_(label, f):
    try:
        print(label, '->', f())
    except BaseException as e:
        print(label, 'EXC', type(e).__name__, e)

f = P('version: "3"\nstruct S { a @0: i8, }\n').unwrap()
try_('i8 -128', lambda: decode(f,'S',encode(f,'S',{'a':-128})))
f = P('version: "3"\nstruct S { a @0: f32, b @1: u8, }\n').unwrap()
try_('f32,u8', lambda: (bytes(encode(f,'S',{'a':1.0,'b':7})), decode(f,'S',encode(f,'S',{'a':1.0,'b':7}))))
f = P('version: "3"\nstruct S { a @0: u3, b @1: f32, }\n').unwrap()
try_('u3,f32', lambda: (bytes(encode(f,'S',{'a':5,'b':1.0})), decode(f,'S',encode(f,'S',{'a':5,'b':1.0}))))
f = P('version: "3"\nstruct S { a @0: u3, b @1: str, }\n').unwrap()
try_('u3,str', lambda: (bytes(encode(f,'S',{'a':5,'b':'hi'})), decode(f,'S',encode(f,'S',{'a':5,'b':'hi'}))))
f = P('version: "3"\nenum E { A=0, B=1, C=2,}\nstruct S { a @0: E, }\n').unwrap()
try_('enum', lambda: (bytes(encode(f,'S',{'a':1}))))
f = P('version: "3"\nstruct S { a @0: str, }\n').unwrap()
try_('trunc str', lambda: decode(f,'S',bytearray([5,0,0,0,104])))
try_('trunc str2', lambda: decode(f,'S',bytearray([255,255,255,255])))
f = P('version: "3"\nstruct S { a @0: [u8], }\n').unwrap()
import time; t=time.time()
try_('dyn huge', lambda: decode(f,'S',bytearray([255,255,255,0])))
print(time.time()-t)
f = P('version: "3"\nstruct S { a @0: f64, }\n').unwrap()
try_('trunc f64', lambda: decode(f,'S',bytearray([1,2,3])))
# parser totality
try_('eof', lambda: P('version: "3"\nstruct S { a @0: u8,'))
try_('empty', lambda: P(''))
try_('float id', lambda: P('version: "3"\nstruct S { a @0.5: u8, }\n'))
try_('str enum', lambda: P('version: "3"\nenum E { A="x", }\n'))
try_('empty enum', lambda: P('version: "3"\nenum E { }\n'))
try_('unknown param', lambda: P('version: "3"\nstruct S { a @0: u8 | foo(1), }\n'))
try_('range 1 arg', lambda: P('version: "3"\nstruct S { a @0: u8 | range(1), }\n'))
try_('undeclared', lambda: P('version: "3"\nstruct S { a @0: T, }\n'))
try_('u0', lambda: P('version: "3"\nstruct S { a @0: u0, }\n').unwrap().structs)
try_('u99', lambda: P('version: "3"\nstruct S { a @0: u99, }\n').unwrap().structs)
