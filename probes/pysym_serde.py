import sys, time, z3
import pysym
from pysym import Engine, SymInt, SymFloat, SymStr, z3of
from fcp.parser import get_fcp_from_string
from fcp import serde
pysym.install(serde)

def run(src, mk_values, label):
    fcp = get_fcp_from_string('version: "3"\n' + src).unwrap()
    eng = Engine()
    vals, assume = mk_values()
    t = time.time()
    results = []
    def body():
        enc = serde.encode(fcp, 'S', vals)
        dec = serde.decode(fcp, 'S', enc)
        return enc, dec
    npaths = 0
    for kind, out, pc in eng.explore(body, assume):
        npaths += 1
        if kind == 'exc':
            r, m = eng.check()
            results.append(('EXC', repr(out), {str(d): m[d] for d in m.decls()} if m else None))
            continue
        enc, dec = out
        ob = []
        for k, v in vals.items():
            d = dec[k]
            if isinstance(v, SymFloat):
                ob.append(d.e == v.e if isinstance(d, SymFloat) else z3.BoolVal(False))
            elif isinstance(v, list):
                ob.append(z3.BoolVal(len(d) == len(v)))
                ob += [z3of(a) == z3of(b) for a, b in zip(d, v)]
            else:
                ob.append(z3of(d) == z3of(v))
        r, m = eng.check(z3.Not(z3.And(*ob)))
        results.append((r, None if m is None else {str(d): m[d] for d in m.decls()}))
    print(f'{label}: paths={npaths} checks={eng.nchecks} solver={eng.solver_time:.2f}s wall={time.time()-t:.2f}s ->', results[:3])

def ints(spec):
    def mk():
        vals, assume = {}, []
        for name, lo, hi in spec:
            v, c = SymInt.fresh(name, lo, hi); vals[name] = v; assume.append(c)
        return vals, assume
    return mk

run('struct S { a @0: i8, }', ints([('a', -128, 127)]), 'i8')
run('struct S { a @0: u3, b @1: i13, c @2: u16, }', ints([('a',0,7),('b',-4096,4095),('c',0,65535)]), 'u3,i13,u16')
run('struct S { a @0: u64, b @1: i64, }', ints([('a',0,2**64-1),('b',-2**63,2**63-1)]), 'u64,i64')
run('struct S { a @0: u64, b @1: i64, }', ints([('a',0,2**64-1),('b',-2**63+1,2**63-1)]), 'u64,i64 (min excluded)')
def fl():
    vals = {'a': SymFloat(z3.BitVec('a', 32), 32)}
    b, c = SymInt.fresh('b', 0, 255); vals['b'] = b
    return vals, [c]
run('struct S { a @0: f32, b @1: u8, }', fl, 'f32,u8')
def fl2():
    b, c = SymInt.fresh('a', 0, 7)
    return {'a': b, 'b': SymFloat(z3.BitVec('b', 32), 32)}, [c]
run('struct S { a @0: u3, b @1: f32, }', fl2, 'u3,f32')
def st():
    a, c = SymInt.fresh('a', 0, 7)
    chars = []; cs = [c]
    for i in range(3):
        ch, cc = SymInt.fresh(f'c{i}', 0, 127); chars.append(ch); cs.append(cc)
    return {'a': a, 'b': SymStr(chars)}, cs
run('struct S { a @0: u3, b @1: str, }', st, 'u3,str')
def st2():
    a, c = SymInt.fresh('a', 0, 255)
    chars = []; cs = [c]
    for i in range(3):
        ch, cc = SymInt.fresh(f'c{i}', 0, 127); chars.append(ch); cs.append(cc)
    return {'a': a, 'b': SymStr(chars)}, cs
run('struct S { a @0: u8, b @1: str, }', st2, 'u8,str')
