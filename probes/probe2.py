import sys, os, tempfile
sys.path[:0]=['/repo/plugins/fcp_dbc','/repo/plugins/fcp_can_c','/repo/plugins/fcp_cpp']
from fcp.parser import get_fcp_from_string, get_fcp
from fcp.verifier import make_general_verifier
def try_(label, f):
    try: print(label, '->', str(f())[:300])
    except BaseException as e: print(label, 'EXC', type(e).__name__, str(e)[:200])
two = 'version: "3"\nstruct A { a @0: u8, }\nstruct B { b @0: u8, }\nimpl can for A { id: 1, }\nimpl can for B { id: 2, }\n'
import fcp_dbc, fcp_can_c, fcp_cpp
def ver(plugin, src):
    f = get_fcp_from_string(src).unwrap(); v = make_general_verifier(); plugin.Generator().register_checks(v); return v.verify(f)
try_('dbc verify two structs distinct ids', lambda: ver(fcp_dbc, two))
try_('can_c verify two structs', lambda: ver(fcp_can_c, two))
en = 'version: "3"\nenum E { X = 0, Y = 1, }\nstruct A { a @0: E, }\nimpl can for A { id: 1, }\n'
try_('can_c verify enum field', lambda: ver(fcp_can_c, en))
sig = 'version: "3"\nstruct A { a @0: u8, }\nimpl can for A { id: 1, signal a { mux_count: 2, }, }\n'
try_('reflection with signal block', lambda: get_fcp_from_string(sig).unwrap().reflection())
try_('range ints', lambda: get_fcp_from_string('version: "3"\nstruct A { a @0: u8 | range(0, 10), }\n'))
fl = 'version: "3"\nstruct A { a @0: f32, b @1: i16, }\nimpl can for A { id: 1, }\n'
def dbc(src):
    f = get_fcp_from_string(src).unwrap(); return fcp_dbc.Generator().generate(f, {"output": "/x"})[0]["contents"]
try_('dbc float', lambda: [l for l in dbc(fl).split('\n') if 'SG_' in l or 'VALTYPE' in l])
big = 'version: "3"\nstruct A { a @0: u32, b @1: u32, c @2: u8, }\nimpl can for A { id: 1, }\n'
try_('dbc too big', lambda: dbc(big))
sv = 'version: "3"\nstruct I { a @0: u8, }\nstruct O { b @0: u8, }\nservice Sv @1 { method m(I) @0 returns O, }\n'
def twice():
    f = get_fcp_from_string(sv).unwrap(); g = fcp_cpp.Generator()
    a = {str(r['path']): r['contents'] for r in g.generate(f, {"output": "/x"})}
    b = {str(r['path']): r['contents'] for r in g.generate(f, {"output": "/x"})}
    strip = lambda s: '\n'.join(l for l in s.split('\n') if not l.startswith('// Generated using'))
    return [k for k in a if strip(a[k]) != strip(b.get(k, ''))], len(f.structs), len(f.enums)
try_('cpp generate twice', twice)
d = tempfile.mkdtemp()
open(d+'/m.fcp','w').write('version: "3"\nstruct I { a @0: u8, }\nservice Sv @1 { method m(I) @0 returns I, }\ndevice D { services: [Sv], }\n')
open(d+'/root.fcp','w').write('version: "3"\nmod m;\nstruct R { i @0: I, }\n')
try_('import with service/device', lambda: {k: len(v) if isinstance(v, list) else v for k, v in get_fcp(d+'/root.fcp').unwrap().to_dict().items()})
open(d+'/bad.fcp','w').write('version: "3"\nstruct I { a @0: u8, \n')
open(d+'/root2.fcp','w').write('version: "3"\nmod bad;\n')
try_('import with syntax error', lambda: get_fcp(d+'/root2.fcp'))
perm = 'version: "3"\nstruct A { b @1: u16, a @0: u8, }\n'
from fcp.serde import encode
try_('serde declaration order', lambda: bytes(encode(get_fcp_from_string(perm).unwrap(), 'A', {'a': 1, 'b': 0x0203})))
